#!/usr/bin/env python3
"""Translate `impl State` (src/vm.rs of fancy-regex: the backtracking state of the VM) into Lean:
lean/FancyModel/GeneratedState.lean.

usage: rs2lean_state.py [VM_RS] [-o OUT.lean] [--stub-on-failure]
       (VM_RS defaults to $RS2LEAN_VM_SRC or /repo/src/vm.rs, OUT to $RS2LEAN_STATE_OUT or lean/FancyModel/GeneratedState.lean;
        --stub-on-failure, used by tools/extract.py: a failure leaves a stub that does not compile in OUT and exits 0)

Mechanical, like rs2lean_vm.py (whose tokenizer and expression parser are reused): one Lean definition per method, one
`let` / `match` per Rust statement in source order, `for` loops as auxiliary recursive functions, every operation that can
panic as a `match` whose failing arm is the panic outcome. Anything outside the subset is an error (exit status 2, the
construct and its line) - nothing is guessed. What is NOT read from the Rust text is in lean/FancyModel/GenStatePrelude.lean
and in the tables below; see notes/translator-state.md.
"""
import os, re, sys

sys.path.insert(0, os.path.dirname(os.path.abspath(__file__)))
import rs2lean_analyze as ra
import rs2lean_vm as rv
import rs2lean_ints as ints
from rs2lean_analyze import Unsupported, bad, matching, top_level_positions, parse_struct, int_of
from rs2lean_vm import tokenize, lean_id, LITERALS

VERIF = os.path.dirname(os.path.dirname(os.path.abspath(__file__)))
DEFAULT_SRC = '/repo/src/vm.rs'
DEFAULT_OUT = os.path.join(VERIF, 'lean', 'FancyModel', 'GeneratedState.lean')


# ------------------------------------------------------------------------------------------------ parser

class Parser(rv.Parser):
    """statements of `impl State`: blocks have an optional tail expression"""

    ASSIGN_OPS = ('=', '+=')        # what the inherited `simple_stmt` lets through (this translator parses assignments itself)

    def expr(self, no_struct=False):
        l = self.p_oror(no_struct)
        if self.at('..'):
            ln = self.next().line
            if self.at(']') or self.at(')'):
                return ('range', l, None, ln)
            return ('range', l, self.p_oror(no_struct), ln)
        if self.at('..='):
            bad('inclusive range `..=`', self.peek().line)
        return l

    def p_primary(self, ns):
        t = self.peek()
        if t.kind == 'id' and t.text == 'vec' and self.peek(1).text == '!':
            self.next()
            self.next()
            self.expect('[')
            x = self.expr()
            if not self.at(';'):
                bad('`vec![..]` that is not `vec![x; n]`', t.line)
            self.next()
            n = self.expr()
            self.expect(']')
            return ('vecrep', x, n, t.line)
        if t.kind == 'op' and t.text == '(':
            self.next()
            if self.at(')'):
                self.next()
                return ('unit', t.line)
            e = self.expr()
            if self.at(','):
                items = [e]
                while self.at(','):
                    self.next()
                    if self.at(')'):
                        break
                    items.append(self.expr())
                self.expect(')')
                return ('tuple', items, t.line)
            self.expect(')')
            return ('paren', e, t.line)
        return rv.Parser.p_primary(self, ns)

    def struct_pattern(self):
        """`[&] Name { f, g: x, .. }` -> (Name, {field: binder}, line)"""
        t = self.peek()
        if self.at('&'):
            self.next()
        name = self.ident()
        self.expect('{')
        items = {}
        while not self.at('}'):
            if self.at('..'):
                self.next()
                if not self.at('}'):
                    bad('`..` that is not last in a struct pattern', t.line)
                break
            if self.at('ref') or self.at('mut'):
                bad('`ref` / `mut` in a struct pattern', t.line)
            f = self.ident()
            b = f
            if self.at(':'):
                self.next()
                b = self.ident()
                if b[:1].isupper() or self.at('{') or self.at('('):
                    bad('nested pattern', t.line)
            if f in items:
                bad('field `%s` bound twice' % f, t.line)
            items[f] = None if b == '_' else b
            if not self.at('}'):
                self.expect(',')
        self.expect('}')
        return (name, items, t.line)

    def skip_to_semicolon(self):
        depth = 0
        while True:
            x = self.next()
            if x.kind == 'eof':
                bad('unterminated statement', x.line)
            if x.kind in LITERALS:
                continue
            if x.text in ('(', '[', '{'):
                depth += 1
            elif x.text in (')', ']', '}'):
                depth -= 1
            elif x.text == ';' and depth == 0:
                return

    def if_stmt(self):
        t = self.expect('if')
        if self.at('let'):
            bad('`if let`', t.line)
        c = self.expr(no_struct=True)
        th = self.block()
        el = None
        if self.at('else'):
            self.next()
            if self.at('if'):
                el = ([self.if_stmt()], None)
            else:
                el = self.block()
        return ('if', c, th, el, t.line)

    def block(self):
        """`{ stmt* [tail] }` -> (stmts, tail expression or None)"""
        self.expect('{')
        stmts, tail = [], None
        while not self.at('}'):
            t = self.peek()
            if tail is not None:
                bad('statement after a tail expression', t.line)
            if t.kind == 'op' and t.text == '#':
                self.attribute()
            elif self.at('self', '.', 'trace_stack', '('):
                self.skip_to_semicolon()                      # tracing
            elif t.kind == 'id' and t.text == 'let':
                self.next()
                if self.at('('):
                    self.next()
                    names = []
                    while not self.at(')'):
                        n = self.ident()
                        names.append(None if n == '_' else n)
                        if not self.at(')'):
                            self.expect(',')
                    self.next()
                    self.expect('=')
                    if self.at('{'):
                        e = ('blockexpr',) + self.block() + (t.line,)
                    else:
                        e = self.expr()
                    self.expect(';')
                    stmts.append(('lettuple', names, e, t.line))
                    continue
                if self.peek().kind == 'id' and self.peek().text[:1].isupper():
                    pat = self.struct_pattern()
                    self.expect('=')
                    e = self.expr()
                    self.expect(';')
                    stmts.append(('letstruct', pat, e, t.line))
                    continue
                mut = False
                if self.at('ref'):
                    bad('`let ref`', t.line)
                if self.at('mut'):
                    self.next()
                    mut = True
                if self.peek().kind != 'id' or self.peek(1).text not in (':', '='):
                    bad('`let` with a pattern that is not an identifier, a tuple of identifiers or `Struct { .. }`', t.line)
                name = self.ident()
                ty = None
                if self.at(':'):
                    self.next()
                    ty = self.type_(['=', ';'])
                    if not (ints.is_int(ty) or ty == 'bool'):
                        bad('`let` with a type annotation other than an integer type / bool', t.line)
                self.expect('=')
                if self.at('{'):
                    bad('block expression (only `let (a, b) = { … };`)', t.line)
                e = self.expr()
                if self.at('else'):
                    bad('`let … else`', t.line)
                self.expect(';')
                stmts.append(('let', name, mut, e, t.line) if ty is None else ('let', name, mut, e, ty, t.line))
            elif t.kind == 'id' and t.text == 'for':
                self.next()
                if self.peek().kind == 'id' and self.peek(1).text == 'in':
                    pat = ('var', self.ident())
                else:
                    pat = ('struct',) + self.struct_pattern()
                self.expect('in')
                it = self.expr(no_struct=True)
                body, btail = self.block()
                if btail is not None:
                    bad('`for` body with a tail expression', t.line)
                stmts.append(('for', pat, it, body, t.line))
            elif t.kind == 'id' and t.text == 'if':
                s = self.if_stmt()
                if self.at(';'):
                    self.next()
                stmts.append(s)
            elif t.kind == 'id' and t.text == 'return':
                self.next()
                e = None if self.at(';') else self.expr()
                self.expect(';')
                stmts.append(('return', e, t.line))
            elif t.kind == 'id' and t.text == 'while' and self.peek(1).text != 'let':
                self.next()
                cnd = self.expr(no_struct=True)
                body, btail = self.block()
                if btail is not None:
                    bad('`while` body with a tail expression', t.line)
                stmts.append(('while', cnd, body, t.line))
            elif t.kind == 'id' and t.text in ('while', 'loop', 'match', 'unsafe', 'fn', 'struct', 'use', 'const', 'static', 'break',
                                               'continue'):
                bad('`%s` statement' % t.text, t.line)
            elif t.kind == 'life':
                bad('labelled loop', t.line)
            elif t.kind == 'op' and t.text == '{':
                bad('nested block statement', t.line)
            else:
                e = self.expr()
                nt = self.peek()
                op = self.assign_op(('=', '+=', '-=', '*=', '|=', '&=', '^=', '<<=', '>>='))
                if op:
                    r = self.expr()
                    self.expect(';')
                    stmts.append(('assign', e, op, r, t.line))
                elif self.at(';'):
                    self.next()
                    stmts.append(('expr', e, t.line))
                elif self.at('}'):
                    tail = e
                else:
                    bad('unexpected `%s` after an expression' % nt.text, nt.line)
        self.expect('}')
        return stmts, tail


# ------------------------------------------------------------------------------------------------ the adaptor tables

# the three struct declarations of vm.rs, compared on every run: field, Rust type, Lean projection (None: no counterpart)
STRUCTS = {
    'State': [('saves', 'Vec<usize>', 'saves'), ('stack', 'Vec<Branch>', 'stack'), ('oldsave', 'Vec<Save>', 'oldsave'),
              ('nsave', 'usize', 'nsave'), ('explicit_sp', 'usize', 'explicitSp'), ('max_stack', 'usize', 'maxStack'),
              ('options', 'u32', None)],          # the tracing flags
    'Branch': [('pc', 'usize', 'pc'), ('ix', 'usize', 'ix'), ('nsave', 'usize', 'nsave')],
    'Save': [('slot', 'usize', '1'), ('value', 'usize', '2')],       # a pair
}
TYPE_TAGS = {'usize': 'usize', 'bool': 'bool', 'Vec<usize>': 'VecUsize', 'Vec<Branch>': 'VecBranch', 'Vec<Save>': 'VecSave',
             'u32': 'u32', 'Result<()>': 'ResultUnit', '(usize,usize)': 'tuple2', 'State': 'State', '()': 'unit'}
LEAN_T = {'usize': 'Nat', 'u64': 'Nat', 'u32': 'Nat', 'u16': 'Nat', 'u8': 'Nat', 'OptUsize': 'Option Nat', 'bool': 'Bool', 'Branch': 'Branch', 'Save': '(Nat × Nat)', 'VecUsize': 'List Nat',
          'VecBranch': 'List Branch', 'VecSave': 'List (Nat × Nat)', 'SetUsize': 'List Nat', 'unit': 'Unit',
          'ResultUnit': 'RResult', 'tuple2': '(Nat × Nat)', 'State': 'RState'}
ELEM = {'VecUsize': 'usize', 'VecBranch': 'Branch', 'VecSave': 'Save'}
SKIPPED_METHODS = {'trace_stack'}
RESERVED = {'acc', 'm', 'n', 'v', 'rest_', 'x_'}


def vid(name):
    """the Lean identifier of a Rust variable: a name that the generated code uses for itself (RESERVED, `t1`, `t2`, …) is
    renamed apart (`n` -> `n_rs`), so that a local may be called anything"""
    return lean_id(name + '_rs') if (name in RESERVED or re.match(r't[0-9]+$', name)) else lean_id(name)


def clash_rs(name):
    return name.endswith('_rs') and (name[:-3] in RESERVED or re.match(r't[0-9]+$', name[:-3]) is not None)


def camel(name):
    parts = name.split('_')
    return parts[0].lower() + ''.join(p[:1].upper() + p[1:] for p in parts[1:])


def is_path(e, *names):
    return e[0] == 'path' and e[1] == list(names)


def root_of(e):
    while e[0] in ('field', 'index', 'paren', 'ref', 'refmut'):
        e = e[1]
    if e[0] == 'path' and len(e[1]) == 1:
        return e[1][0]
    return None


class Ctx:
    def __init__(self):
        self.types = {}
        self.mutable = set()
        self.fn = None
        self.ret = 'unit'
        self.loop = False
        self.self_kind = None
        self.readonly = set()       # inside a loop function: names of the enclosing scope that are not accumulators

    def copy(self):
        c = Ctx()
        c.types, c.mutable, c.fn, c.ret, c.loop, c.readonly = dict(self.types), set(self.mutable), self.fn, self.ret, self.loop, set(self.readonly)
        c.self_kind = self.self_kind
        return c


class Translator:
    def __init__(self, toks):
        self.toks = toks
        self.defs = []
        self.methods = {}        # name -> (self kind: None | 'ref' | 'mut', [param types], ret tag)
        self.names = set()
        self.tmpn = 0

    # ---- results
    def site(self, c, op):
        return '%s: %s' % (c.fn, op)

    def fresh(self):
        self.tmpn += 1
        return 't%d' % self.tmpn

    def hoist(self, scrut, c, op):
        t = self.fresh()
        return ('match', scrut, 'none', '.panic "%s"' % self.site(c, op), 'some %s' % t), t

    @staticmethod
    def emit_pre(pre, ind):
        out = []
        for h in pre:
            if h[0] == 'let':
                out.append(ind + 'let %s := %s' % (h[1], h[2]))
            else:
                _, scrut, failpat, failres, okpat = h
                out += [ind + 'match %s with' % scrut, ind + '| %s => %s' % (failpat, failres), ind + '| %s =>' % okpat]
                ind += '  '
        return out, ind

    def want(self, got, want, what, line):
        wants = want if isinstance(want, tuple) else (want,)
        if got not in wants:
            bad('%s has type %s, expected %s' % (what, got, ' or '.join(wants)), line)

    def ret(self, c, val):
        return ('.ret self %s' if c.loop else '.ok self %s') % val

    # ---- expressions -> (pre, lean text, type tag)
    def field_of(self, struct, f, line):
        for name, ty, proj in STRUCTS[struct]:
            if name == f:
                if proj is None:
                    bad('field `%s.%s` has no counterpart in the model' % (struct, f), line)
                tag = TYPE_TAGS[ty]
                return proj, tag
        bad('`%s` has no field `%s`' % (struct, f), line)

    def ex(self, e, c, expect=None):
        k, line = e[0], e[-1]
        if k == 'int':
            t = expect if ints.is_int(expect) else 'usize'
            if not ints.fits(e[1], t):
                bad('the literal %d does not fit the type %s' % (e[1], t), line)
            return [], str(e[1]), t
        if k == 'tint':
            if not ints.is_int(e[2]) or not ints.fits(e[1], e[2]):
                bad('integer literal of type %s' % e[2], line)
            return [], str(e[1]), e[2]
        if k == 'cast':
            pre, s, t = self.ex(e[1], c)
            if e[2] in ints.SIGNED:
                bad('cast to the signed / 128-bit type %s (not in the subset)' % e[2], line)
            if not (ints.is_int(t) and ints.is_int(e[2])):
                bad('cast from %s to %s' % (t, e[2]), line)
            return pre, ints.cast(s, t, e[2]), e[2]
        if k == 'bool':
            return [], ('true' if e[1] else 'false'), 'bool'
        if k == 'unit':
            return [], '()', 'unit'
        if k == 'paren':
            return self.ex(e[1], c, expect)
        if k == 'path':
            if e[1] == ['usize', 'MAX']:
                return [], 'UNSET', 'usize'
            if len(e[1]) == 2 and e[1][1] == 'MAX' and ints.is_int(e[1][0]):
                return [], str(ints.modulus(e[1][0]) - 1), e[1][0]
            if len(e[1]) != 1:
                bad('path `%s` as a value' % '::'.join(e[1]), line)
            n = e[1][0]
            if n not in c.types:
                bad('unknown variable `%s`' % n, line)
            if n == 'self':
                bad('`self` as a value', line)
            return [], vid(n), c.types[n]
        if k == 'field':
            pre, s, t = self.ex_place(e[1], c)
            if t not in ('State', 'Branch', 'Save'):
                bad('field `.%s` of a value of type %s' % (e[2], t), line)
            proj, tag = self.field_of(t, e[2], line)
            return pre, '%s.%s' % (s, proj), tag
        if k in ('ref', 'refmut'):
            bad('`&` expression here', line)
        if k == 'not':
            pre, s, t = self.ex(e[1], c, expect)
            if ints.is_int(t):
                return pre, ints.bitnot(s, t), t
            self.want(t, 'bool', 'operand of `!`', line)
            return pre, '(!%s)' % s, 'bool'
        if k == 'bin':
            return self.ex_bin(e, c, expect)
        if k == 'index':
            _, base, idx, _ = e
            if idx[0] == 'range':
                bad('slice outside a `for` iterator', line)
            pb, b, tb = self.ex_place(base, c)
            if tb not in ELEM:
                bad('indexing a value of type %s' % tb, line)
            pi, i, ti = self.ex(idx, c)
            self.want(ti, 'usize', 'index', line)
            h, t = self.hoist('%s[%s]?' % (b, i), c, 'index')
            return pb + pi + [h], t, ELEM[tb]
        if k == 'mcall':
            return self.ex_mcall(e, c)
        if k == 'call':
            path, args = e[1], e[2]
            if path == ['Ok'] and len(args) == 1 and args[0][0] == 'unit':
                return [], '.okUnit', 'ResultUnit'
            if path == ['Err'] and len(args) == 1:
                a = args[0]
                if a[0] == 'call' and a[1] == ['Error', 'RuntimeError'] and len(a[2]) == 1 and is_path(a[2][0], 'RuntimeError', 'StackOverflow'):
                    return [], '.errStackOverflow', 'ResultUnit'
                bad('`Err(..)` of something other than Error::RuntimeError(RuntimeError::StackOverflow)', line)
            if path == ['Vec', 'new'] and not args:
                if expect not in ELEM:
                    bad('`Vec::new()` whose element type is not known here', line)
                return [], '[]', expect
            if path == ['BTreeSet', 'new'] and not args:
                return [], '[]', 'SetUsize'
            bad('call of `%s`' % '::'.join(path), line)
        if k == 'vecrep':
            (p1, x, t1), (p2, n, t2) = self.ex(e[1], c), self.ex(e[2], c)
            self.want(t1, 'usize', 'element of `vec![x; n]`', line)
            self.want(t2, 'usize', 'length of `vec![x; n]`', line)
            return p1 + p2, '(List.replicate %s %s)' % (n, x), 'VecUsize'
        if k == 'tuple':
            if len(e[1]) != 2:
                bad('tuple that is not a pair', line)
            (p1, a, t1), (p2, b, t2) = self.ex(e[1][0], c), self.ex(e[1][1], c)
            self.want(t1, 'usize', 'component of the pair', line)
            self.want(t2, 'usize', 'component of the pair', line)
            return p1 + p2, '(%s, %s)' % (a, b), 'tuple2'
        if k == 'struct':
            return self.ex_struct(e, c)
        if k == 'try':
            bad('`?`', line)
        if k == 'range':
            bad('range expression here', line)
        bad('expression form %s' % k, line)

    def ex_place(self, e, c):
        """an expression that may be `self`"""
        if is_path(e, 'self'):
            if 'self' not in c.types:
                bad('`self` in a function without a receiver', e[-1])
            return [], 'self', 'State'
        return self.ex(e, c)

    def ex_struct(self, e, c):
        _, path, fields, line = e
        if len(path) != 1 or path[0] not in STRUCTS:
            bad('struct literal `%s { .. }`' % '::'.join(path), line)
        name = path[0]
        decl = STRUCTS[name]
        given = {}
        for f, fe, fl in fields:
            if f in given:
                bad('field `%s` given twice' % f, fl)
            given[f] = (fe, fl)
        if set(given) != set(f for f, _, _ in decl):
            bad('`%s { .. }` does not give every field exactly once' % name, line)
        pre, vals = [], []
        for f, ty, proj in decl:              # evaluated in the order written; all initialisers here are pure or panic-free
            fe, fl = given[f]
            if proj is None:
                continue
            p, s, t = self.ex(fe, c, expect=TYPE_TAGS[ty])
            self.want(t, TYPE_TAGS[ty], 'field `%s`' % f, fl)
            pre += p
            vals.append((proj, s))
        order = [f for f, _, _ in fields]
        if pre and order != [f for f, _, _ in decl]:
            bad('struct literal with initialisers that can panic, not in declaration order', line)
        if name == 'Save':
            return pre, '(%s, %s)' % (vals[0][1], vals[1][1]), 'Save'
        lean_name = {'State': 'RState', 'Branch': 'Branch'}[name]
        return pre, '({ %s } : %s)' % (', '.join('%s := %s' % v for v in vals), lean_name), name

    def ex_pair(self, a, b, c, expect=None):
        """both operands of an operator whose operands have one type: an unsuffixed literal takes the type of the other side
        (else of the context)"""
        if ints.literalish(a) and not ints.literalish(b):
            rb = self.ex(b, c, expect)
            return self.ex(a, c, rb[2] if ints.is_int(rb[2]) else expect), rb
        ra_ = self.ex(a, c, expect)
        return ra_, self.ex(b, c, ra_[2] if ints.is_int(ra_[2]) and ints.literalish(b) else expect)

    def ex_bin(self, e, c, expect=None):
        _, op, a, b, line = e
        if op in ('<<', '>>'):
            if ints.literalish(a) and not ints.is_int(expect):
                bad('`%s` on an integer literal whose type is not evident here' % op, line)
            (pa, l, tl), (pb, r, tr) = self.ex(a, c, expect), self.ex(b, c)
            if not (ints.is_int(tl) and ints.is_int(tr)):
                bad('`%s` between %s and %s' % (op, tl, tr), line)
            return pa + pb, ints.shift(op, l, r, tl), tl
        (pa, l, tl), (pb, r, tr) = self.ex_pair(a, b, c, expect if op in ('+', '*', '-', '|', '&', '^') else None)
        if op in ('|', '&', '^') and ints.is_int(tl):
            if tl != tr:
                bad('`%s` between %s and %s' % (op, tl, tr), line)
            return pa + pb, ints.bitop(op, l, r), tl
        if op in ('|', '&') and tl == 'bool':
            self.want(tr, 'bool', 'right operand of `%s`' % op, line)
            return pa + pb, '(%s %s %s)' % (l, '||' if op == '|' else '&&', r), 'bool'
        if op in ('||', '&&'):
            self.want(tl, 'bool', 'left operand of `%s`' % op, line)
            self.want(tr, 'bool', 'right operand of `%s`' % op, line)
            if pb:
                bad('the right operand of `%s` can panic' % op, line)
            return pa, '(%s %s %s)' % (l, op, r), 'bool'
        if op in ('==', '!='):
            if tl != tr or not (tl == 'bool' or ints.is_int(tl)):
                bad('`%s` between %s and %s' % (op, tl, tr), line)
            return pa + pb, '(%s %s %s)' % (l, op, r), 'bool'
        if op in ('<', '<=', '>', '>='):
            if tl != tr or not ints.is_int(tl):
                bad('`%s` between %s and %s' % (op, tl, tr), line)
            return pa + pb, '(decide (%s %s %s))' % (l, {'<': '<', '<=': '≤', '>': '>', '>=': '≥'}[op], r), 'bool'
        if op in ('+', '*', '-'):
            if tl != tr or not ints.is_int(tl):
                bad('`%s` between %s and %s' % (op, tl, tr), line)
            if op == '-':
                h, t = self.hoist('checkedSub %s %s' % (l, r), c, 'sub')
                return pa + pb + [h], t, tl
            return pa + pb, ints.arith(op, l, r, tl), tl
        bad('operator `%s`' % op, line)

    def self_call(self, e, c):
        """`self.m(args)` with m a method translated earlier -> (pre, lean call text, ret tag, mutates)"""
        _, recv, m, args, line = e
        if m not in self.methods:
            bad('`self.%s(..)`: not a method of `impl State` translated before this point' % m, line)
        kind, ptypes, ret = self.methods[m]
        if kind is None:
            bad('`self.%s(..)` has no receiver' % m, line)
        if len(args) != len(ptypes):
            bad('`self.%s` takes %d argument(s)' % (m, len(ptypes)), line)
        pre, out = [], []
        for a, w in zip(args, ptypes):
            p, s, t = self.ex(a, c)
            self.want(t, w, 'argument of self.' + m, line)
            pre += p
            out.append(s)
        return pre, '%s self%s' % (self.gen_name(m), ''.join(' ' + x for x in out)), ret, kind == 'mut'

    def gen_name(self, m):
        return 'gen' + ''.join(p[:1].upper() + p[1:] for p in m.split('_'))

    def ex_mcall(self, e, c):
        _, recv, m, args, line = e
        if is_path(recv, 'self'):
            pre, call, ret, mut = self.self_call(e, c)
            if mut:
                if 'self' in c.readonly:
                    bad('`self.%s(..)` changes the state inside a loop that only reads it' % m, line)
            t = self.fresh()
            h = ('match', call, '.panic m', '.panic m', '.ok %s %s' % ('self' if mut else '_', t))
            return pre + [h], t, ret
        # vec.pop().unwrap()
        if m == 'unwrap' and not args and recv[0] == 'mcall' and recv[2] == 'pop' and not recv[3]:
            v = recv[1]
            pv, sv, tv = self.ex_place(v, c)
            if tv not in ELEM or pv:
                bad('`.pop()` on a value of type %s' % tv, line)
            t = self.fresh()
            tmpv = self.fresh()
            h = ('match', 'vecPop %s' % sv, 'none', '.panic "%s"' % self.site(c, 'pop'), 'some (%s, %s)' % (tmpv, t))
            return [h] + self.store(v, tmpv, c, line), t, ELEM[tv]
        if m == 'insert' and len(args) == 1:
            if recv[0] != 'path' or len(recv[1]) != 1 or c.types.get(recv[1][0]) != 'SetUsize':
                bad('`.insert(..)` on something that is not a local BTreeSet', line)
            v = recv[1][0]
            self.check_assignable(c, v, line)
            pa, a, ta = self.ex(args[0], c)
            self.want(ta, 'usize', 'argument of insert', line)
            t = self.fresh()
            return pa + [('let', '(%s, %s)' % (t, vid(v)), 'btreeInsert %s %s' % (vid(v), a))], t, 'bool'
        pre, r, t = self.ex_place(recv, c)
        if t in ELEM and m == 'len' and not args:
            return pre, '%s.length' % r, 'usize'
        if t in ELEM and m == 'is_empty' and not args:
            return pre, '%s.isEmpty' % r, 'bool'
        if t == 'SetUsize' and m == 'contains' and len(args) == 1 and args[0][0] == 'ref':
            pa, a, ta = self.ex(args[0][1], c)
            self.want(ta, 'usize', 'argument of contains', line)
            return pre + pa, '(List.elem %s %s)' % (a, r), 'bool'
        if ints.is_int(t) and m in ints.METHODS:
            if len(args) != 1:
                bad('`.%s(..)` takes one argument' % m, line)
            kind = ints.METHODS[m]
            want = t if kind[1] == 'same' else kind[1]
            pa, a, ta = self.ex(args[0], c, want)
            self.want(ta, want, 'argument of `.%s`' % m, line)
            if kind[2] == 'opt':
                if t != 'usize':
                    bad('`.%s(..)` on a value of type %s (an Option of it has no counterpart here)' % (m, t), line)
                return pre + pa, ints.method(m, r, a, t), 'OptUsize'
            return pre + pa, ints.method(m, r, a, t), t
        if t == 'OptUsize' and m == 'unwrap_or' and len(args) == 1:
            pa, a, ta = self.ex(args[0], c, 'usize')
            self.want(ta, 'usize', 'argument of `.unwrap_or`', line)
            return pre + pa, '(Option.getD %s %s)' % (r, a), 'usize'
        if t == 'OptUsize' and m == 'unwrap' and not args:
            h, tv = self.hoist(r, c, 'unwrap')
            return pre + [h], tv, 'usize'
        if t == 'OptUsize' and m in ('is_some', 'is_none') and not args:
            return pre, '(Option.%s %s)' % ('isSome' if m == 'is_some' else 'isNone', r), 'bool'
        if m == 'pop':
            bad('`.pop()` without `.unwrap()`', line)
        bad('method call `.%s(…)` on a value of type %s' % (m, t), line)

    # ---- places
    def check_assignable(self, c, name, line):
        if name == 'self':
            if c.self_kind != 'mut':
                bad('the state is changed in a method that does not take `&mut self`', line)
        elif name not in c.types or name not in c.mutable:
            bad('assignment to `%s`, which is not a `let mut` local' % name, line)
        if name in c.readonly:
            bad('internal: `%s` is changed inside a loop but is not one of its accumulators' % name, line)

    def store(self, place, val, c, line):
        """let-hoists that write `val` to `self.f` or to a local"""
        if place[0] == 'field' and is_path(place[1], 'self'):
            proj, tag = self.field_of('State', place[2], line)
            self.check_assignable(c, 'self', line)
            return [('let', 'self', '{ self with %s := %s }' % (proj, val))]
        if place[0] == 'path' and len(place[1]) == 1 and place[1][0] != 'self':
            self.check_assignable(c, place[1][0], line)
            return [('let', vid(place[1][0]), val)]
        bad('this place cannot be written (only `self.field` and `let mut` locals)', line)

    # ---- which names a statement list changes
    def mutated(self, x, out):
        if isinstance(x, tuple) and x:
            if x[0] == 'assign':
                r = root_of(x[1])
                if r:
                    out.add(r)
            if x[0] == 'mcall':
                if x[2] in ('push', 'pop', 'swap', 'truncate', 'insert'):
                    r = root_of(x[1])
                    if r:
                        out.add(r)
                if is_path(x[1], 'self') and x[2] in self.methods and self.methods[x[2]][0] == 'mut':
                    out.add('self')
            for y in (x[1:] if isinstance(x[0], str) else x):
                self.mutated(y, out)
        elif isinstance(x, list):
            for y in x:
                self.mutated(y, out)
        elif isinstance(x, dict):
            for y in x.values():
                self.mutated(y, out)
        return out

    def calls(self, x, m):
        if isinstance(x, tuple) and x:
            if x[0] == 'mcall' and is_path(x[1], 'self') and x[2] == m:
                return True
            return any(self.calls(y, m) for y in x[1:])
        return isinstance(x, list) and any(self.calls(y, m) for y in x)

    def free_names(self, x, out):
        if isinstance(x, tuple) and x:
            if x[0] == 'path' and isinstance(x[1], list) and len(x[1]) == 1 and x[1][0] not in out:
                out.append(x[1][0])
            if x[0] == 'struct':
                for f, fe, _ in x[2]:
                    self.free_names(fe, out)
                return out
            for y in (x[1:] if isinstance(x[0], str) else x):
                self.free_names(y, out)
        elif isinstance(x, list):
            for y in x:
                self.free_names(y, out)
        return out

    # ---- statements, continuation-passing
    def bind(self, c, name, tag, mut, line, shadow=False):
        if (name in c.types and not (shadow and name != 'self' and name not in c.readonly)) or clash_rs(name) or name in self.names:
            bad('`let %s` shadows a name of an enclosing scope / a parameter (only an earlier `let` of the same block may be shadowed)' % name, line)
        c2 = c.copy()
        c2.types[name] = tag
        c2.mutable.discard(name)
        if mut:
            c2.mutable.add(name)
        return c2

    def block(self, stmts, c, ind, k):
        if not stmts:
            return k(c, ind)
        ints.mark_shadow_lets(stmts, self)
        s, rest = stmts[0], stmts[1:]
        kind, line = s[0], s[-1]
        cont = lambda c2, ind2: self.block(rest, c2, ind2, k)

        def after_branch(c_inner, ind2):
            return cont(c, ind2)

        if kind == 'let':
            name, mut, e = s[1], s[2], s[3]
            ty = s[4] if len(s) == 6 else None
            pre, txt, t = self.ex(e, c, ty)
            if t not in LEAN_T:
                bad('`let %s` of a value of type %s' % (name, t), line)
            if ty is not None:
                self.want(t, ty, 'initialiser of `let %s: %s`' % (name, ty), line)
            c2 = self.bind(c, name, t, mut, line, ints.shadow_ok(self, s))
            out, i2 = self.emit_pre(pre, ind)
            return out + [i2 + 'let %s : %s := %s' % (vid(name), LEAN_T[t], txt)] + cont(c2, i2)
        if kind == 'letstruct':
            _, (sname, items, pline), e, _ = s
            if sname not in ('Branch', 'Save'):
                bad('`let %s { .. } = …`' % sname, line)
            pre, txt, t = self.ex(e, c)
            self.want(t, sname, 'right-hand side of `let %s { .. }`' % sname, line)
            out, i2 = self.emit_pre(pre, ind)
            c2 = c
            for f, b in items.items():
                proj, tag = self.field_of(sname, f, pline)
                if b:
                    c2 = self.bind(c2, b, tag, False, line)
                    out.append(i2 + 'let %s : %s := %s.%s' % (vid(b), LEAN_T[tag], txt, proj))
            return out + cont(c2, i2)
        if kind == 'lettuple':
            _, names, e, _ = s
            if e[0] != 'blockexpr':
                bad('tuple `let` of something other than a block `{ …; (a, b) }`', line)
            _, bstmts, btail, _ = e
            if btail is None or btail[0] != 'tuple' or len(btail[1]) != len(names):
                bad('the block does not end in a tuple of %d components' % len(names), line)

            def fin(c_inner, i2):
                out, c2 = [], c
                pre_all = []
                vals = []
                for comp in btail[1]:
                    p, v, t = self.ex(comp, c_inner)
                    self.want(t, 'usize', 'component of the tuple', line)
                    pre_all += p
                    vals.append(v)
                o2, i3 = self.emit_pre(pre_all, i2)
                out += o2
                for n, v in zip(names, vals):
                    if n:
                        c2 = self.bind(c2, n, 'usize', False, line)
                        out.append(i3 + 'let %s : Nat := %s' % (vid(n), v))
                # what the block changed outside itself stays changed (same names), its own locals go out of scope
                return out + cont(c2, i3)
            for st in bstmts:
                if st[0] == 'return':
                    bad('`return` inside a block expression', st[-1])
            return self.block(bstmts, c.copy(), ind, fin)
        if kind == 'assign':
            _, target, op, e, _ = s
            if target[0] == 'index':
                if op != '=':
                    bad('`v[i] %s …`' % op, line)
                pb, b, tb = self.ex_place(target[1], c)
                if tb not in ELEM or pb:
                    bad('indexed assignment into a value of type %s' % tb, line)
                pi, i, ti = self.ex(target[2], c)
                self.want(ti, 'usize', 'index', line)
                pv, v, tv = self.ex(e, c)
                self.want(tv, ELEM[tb], 'assigned value', line)
                t = self.fresh()
                h = ('match', 'vecSet %s %s %s' % (b, i, v), 'none', '.panic "%s"' % self.site(c, 'index'), 'some %s' % t)
                out, i2 = self.emit_pre(pi + pv + [h] + self.store(target[1], t, c, line), ind)
                return out + cont(c, i2)
            if target[0] == 'field' and is_path(target[1], 'self'):
                proj, ttype = self.field_of('State', target[2], line)
                cur = 'self.%s' % proj
            elif target[0] == 'path' and len(target[1]) == 1 and target[1][0] in c.types and target[1][0] != 'self':
                ttype, cur = c.types[target[1][0]], vid(target[1][0])
            else:
                bad('assignment to something other than `self.field`, `v[i]` or a local', line)
            if op in ('<<=', '>>='):
                pre, txt, t = self.ex(e, c)
                if not (ints.is_int(ttype) and ints.is_int(t)):
                    bad('`%s` between %s and %s' % (op, ttype, t), line)
                txt = ints.shift(op[:2], cur, txt, ttype)
            else:
                pre, txt, t = self.ex(e, c, ttype)
                self.want(t, ttype, 'right-hand side of the assignment', line)
            if op in ('+=', '-=', '*=', '|=', '&=', '^='):
                if not (ints.is_int(ttype) or (ttype == 'bool' and op in ('|=', '&='))):
                    bad('`%s` on a place of type %s' % (op, ttype), line)
                if ttype == 'bool':
                    txt = '(%s %s %s)' % (cur, '||' if op == '|=' else '&&', txt)
                elif op in ('+=', '*='):
                    txt = ints.arith(op[0], cur, txt, ttype)
                elif op == '-=':
                    h, txt = self.hoist('checkedSub %s %s' % (cur, txt), c, 'sub')
                    pre = pre + [h]
                else:
                    txt = ints.bitop(op[0], cur, txt)
            out, i2 = self.emit_pre(pre + self.store(target, txt, c, line), ind)
            return out + cont(c, i2)
        if kind == 'expr':
            e = s[1]
            if e[0] != 'mcall':
                bad('expression statement that is not a method call', line)
            _, recv, m, args, _ = e
            if is_path(recv, 'self'):
                pre, call, ret, mut = self.self_call(e, c)
                if mut:
                    self.check_assignable(c, 'self', line)
                h = ('match', call, '.panic m', '.panic m', '.ok %s _' % ('self' if mut else '_'))
                out, i2 = self.emit_pre(pre + [h], ind)
                return out + cont(c, i2)
            if m == 'insert':
                pre, _, _ = self.ex_mcall(e, c)
                out, i2 = self.emit_pre(pre, ind)
                return out + cont(c, i2)
            pv, v, tv = self.ex_place(recv, c)
            if tv not in ELEM or pv:
                bad('`.%s(..)` as a statement on a value of type %s' % (m, tv), line)
            if m == 'push' and len(args) == 1:
                pa, a, ta = self.ex(args[0], c)
                self.want(ta, ELEM[tv], 'argument of push', line)
                pre = pa + self.store(recv, '(%s ++ [%s])' % (v, a), c, line)
            elif m == 'truncate' and len(args) == 1:
                pa, a, ta = self.ex(args[0], c)
                self.want(ta, 'usize', 'argument of truncate', line)
                pre = pa + self.store(recv, '(List.take %s %s)' % (a, v), c, line)
            elif m == 'swap' and len(args) == 2:
                (p1, a, t1), (p2, b, t2) = self.ex(args[0], c), self.ex(args[1], c)
                self.want(t1, 'usize', 'argument of swap', line)
                self.want(t2, 'usize', 'argument of swap', line)
                t = self.fresh()
                pre = p1 + p2 + [('match', 'vecSwap %s %s %s' % (v, a, b), 'none', '.panic "%s"' % self.site(c, 'swap'), 'some %s' % t)] \
                    + self.store(recv, t, c, line)
            else:
                bad('`.%s(..)` as a statement' % m, line)
            out, i2 = self.emit_pre(pre, ind)
            return out + cont(c, i2)
        if kind == 'if':
            _, cnd, (th, ttail), el, _ = s
            els, etail = el if el else ([], None)
            pre, txt, t = self.ex(cnd, c)
            self.want(t, 'bool', 'condition', line)
            out, i2 = self.emit_pre(pre, ind)
            if ttail is not None or etail is not None:
                if rest or c.loop or ttail is None or etail is None:
                    bad('`if` with a value that is not the last expression of the method', line)
                kt = lambda c2, i3: self.finish(c2, i3, ttail)
                ke = lambda c2, i3: self.finish(c2, i3, etail)
            else:
                kt = ke = after_branch
            out += [i2 + 'if %s then' % txt] + self.block(th, c.copy(), i2 + '  ', kt) + [i2 + 'else'] \
                + self.block(els, c.copy(), i2 + '  ', ke)
            return out
        if kind == 'for':
            return self.for_loop(s, c, ind, cont)
        if kind == 'while':
            return self.while_loop(s, c, ind, cont)
        if kind == 'return':
            if rest:
                bad('statement after `return`', rest[0][-1])
            return self.finish(c, ind, s[1])
        bad('statement form %s' % kind, line)

    def finish(self, c, ind, e):
        """leave the method with the value of `e` (None: `()`)"""
        if e is None:
            if c.ret != 'unit':
                bad('the method ends without a value but returns %s' % c.ret, None)
            return [ind + self.ret(c, '()')]
        pre, txt, t = self.ex(e, c)
        self.want(t, c.ret, 'returned value', e[-1])
        out, i2 = self.emit_pre(pre, ind)
        return out + [i2 + self.ret(c, txt)]

    def for_loop(self, s, c, ind, cont):
        _, pat, it, body, line = s
        if c.loop:
            bad('nested loop', line)
        name, n = 'loop' + self.gen_name(c.fn)[3:], 1
        base = name
        while name in self.names:
            n += 1
            name = base + str(n)
        self.names.add(name)
        # accumulators: what the body changes among the names of the enclosing scope; `self` first
        mut = self.mutated(body, set())
        acc = (['self'] if 'self' in mut else []) + sorted(v for v in mut if v != 'self' and v in c.types)
        for v in acc:
            self.check_assignable(c, v, line)
        free = self.free_names(body, [])
        cap = sorted(v for v in free if v in c.types and v not in acc and (v == 'self' or c.types[v] in LEAN_T))
        tyof = lambda v: 'RState' if v == 'self' else LEAN_T[c.types[v]]
        acc_pat = vid(acc[0]) if len(acc) == 1 else '(%s)' % ', '.join(vid(v) for v in acc) if acc else '()'
        acc_ty = ' × '.join(tyof(v) for v in acc) if acc else 'Unit'
        if len(acc) > 1:
            acc_ty = '(%s)' % acc_ty
        params = ''.join(' (%s : %s)' % (vid(v), tyof(v)) for v in cap)
        call = name + ''.join(' ' + vid(v) for v in cap)
        wrap = lambda ty: '(%s)' % ty if ' ' in ty and not ty.startswith('(') else ty
        flow = 'Flow %s %s' % (wrap(acc_ty), wrap(LEAN_T[c.ret]))
        cl = c.copy()
        cl.loop = True
        cl.readonly = set(cap)
        pre = []
        if it[0] == 'paren':
            it = it[1]
        if it[0] == 'range' and it[2] is not None:
            if pat[0] != 'var':
                bad('`for` over a range with a struct pattern', line)
            (p1, lo, t1), (p2, hi, t2) = self.ex(it[1], c), self.ex(it[2], c)
            self.want(t1, 'usize', 'start of the range', line)
            self.want(t2, 'usize', 'end of the range', line)
            pre = p1 + p2
            iv = pat[1] if pat[1] != '_' else 'i_'
            if pat[1] != '_':
                cl = self.bind(cl, iv, 'usize', False, line)
                cl.readonly.add(iv)
            lines = ['def %s%s : Nat → Nat → %s → %s' % (name, params, acc_ty, flow),
                     '  | 0, %s, acc => .next acc' % vid(iv),
                     '  | n + 1, %s, %s =>' % (vid(iv), acc_pat)]
            lines += self.block(body, cl, '    ', lambda c2, i2: [i2 + '%s n (%s + 1) %s' % (call, vid(iv), acc_pat)])
            start = '%s (%s - %s) %s %s' % (call, hi, lo, lo, acc_pat)
            doc = 'a `for` loop of `%s` over a range: iterations left, the loop variable, the accumulators' % c.fn
        elif (it[0] == 'ref' and it[1][0] == 'index' and it[1][2][0] == 'range') or \
                (it[0] == 'mcall' and it[2] == 'drain' and len(it[3]) == 1 and it[3][0][0] == 'range' and it[3][0][2] is None):
            drain = it[0] == 'mcall'
            base_e, rng = (it[1], it[3][0]) if drain else (it[1][1], it[1][2])
            pb, b, tb = self.ex_place(base_e, c)
            if tb not in ELEM or pb:
                bad('slice of a value of type %s' % tb, line)
            p1, lo, t1 = self.ex(rng[1], c)
            self.want(t1, 'usize', 'start of the slice', line)
            if drain:
                # `v.drain(a..)`: panics when `a > v.len()`; yields v[a..] in order; `v` (not reachable inside the loop: it is
                # mutably borrowed) is cut to `a` whatever way the loop is left
                def mentions(x):
                    if isinstance(x, tuple) and x:
                        if x == base_e or (x[0] == base_e[0] and x[1:-1] == base_e[1:-1]):
                            return True
                        return any(mentions(y) for y in x[1:])
                    return isinstance(x, list) and any(mentions(y) for y in x)
                if not ((base_e[0] == 'field' and is_path(base_e[1], 'self')) or (base_e[0] == 'path' and len(base_e[1]) == 1)) \
                        or mentions(body) or any(self.methods[m][0] for m in self.methods if self.calls(body, m)):
                    bad('`drain` on something other than `self.field` / a local, or the drained vector may be used inside the loop', line)
                h, lst = self.hoist('sliceFrom %s %s' % (b, lo), c, 'drain')
                pre = p1 + [h] + self.store(base_e, '(List.take %s %s)' % (lo, b), c, line)
            elif rng[2] is None:
                h, lst = self.hoist('sliceFrom %s %s' % (b, lo), c, 'slice')
                pre = p1 + [h]
            else:
                p2, hi, t2 = self.ex(rng[2], c)
                self.want(t2, 'usize', 'end of the slice', line)
                h, lst = self.hoist('sliceRange %s %s %s' % (b, lo, hi), c, 'slice')
                pre = p1 + p2 + [h]
            et = ELEM[tb]
            binds = []
            if pat[0] == 'var':
                cl = self.bind(cl, pat[1], et, False, line)
                ev = vid(pat[1])
            else:
                _, sname, items, pline = pat
                if sname != et:
                    bad('pattern `%s { .. }` on elements of type %s' % (sname, et), line)
                ev = 'x_'
                for f, bname in items.items():
                    proj, tag = self.field_of(sname, f, pline)
                    if bname:
                        cl = self.bind(cl, bname, tag, False, line)
                        cl.readonly.add(bname)
                        binds.append('    let %s : %s := x_.%s' % (vid(bname), LEAN_T[tag], proj))
            lines = ['def %s%s : List %s → %s → %s' % (name, params, LEAN_T[et], acc_ty, flow),
                     '  | [], acc => .next acc',
                     '  | %s :: rest_, %s =>' % (ev, acc_pat)] + binds
            lines += self.block(body, cl, '    ', lambda c2, i2: [i2 + '%s rest_ %s' % (call, acc_pat)])
            start = '%s %s %s' % (call, lst, acc_pat)
            doc = 'a `for` loop of `%s` over a slice: the elements left, the accumulators' % c.fn
        else:
            bad('`for` over something other than `a..b`, `&v[a..]`, `&v[a..b]`', line)
        self.defs.append((doc, lines))
        out, i2 = self.emit_pre(pre, ind)
        out += [i2 + 'match %s with' % start, i2 + '| .panic m => .panic m',
                i2 + '| .ret self v => %s' % ('.ret self v' if c.loop else '.ok self v'),
                i2 + '| .next %s =>' % acc_pat]
        return out + cont(c, i2 + '  ')

    def while_loop(self, s, c, ind, cont):
        """`while v < bound { …; v += k; }` with a bound on the number of iterations that is evident from the text: `v` is a
        `let mut` integer that the body changes only in its last statement `v += k` (k a literal >= 1), `bound` cannot panic
        and mentions nothing the body changes. Then `bound - v` iterations suffice: that is the fuel. Running out of it with the
        test still true is the explicit outcome `.panic "<fn>: while (out of fuel)"` - nothing is assumed silently."""
        _, cnd, body, line = s
        if c.loop:
            bad('nested loop', line)
        cn = ints.strip(cnd)
        why = 'no bound on the number of iterations is evident: expected `while v < bound { …; v += k; }`'
        if not (cn[0] == 'bin' and cn[1] == '<' and cn[2][0] == 'path' and len(cn[2][1]) == 1):
            bad('`while`: %s' % why, line)
        v = cn[2][1][0]
        if v not in c.mutable or not ints.is_int(c.types.get(v)) or v in c.readonly:
            bad('`while`: %s (`%s` is not a `let mut` integer of this scope)' % (why, v), line)
        last = body[-1] if body else None
        if not (last and last[0] == 'assign' and last[1][0] == 'path' and last[1][1] == [v] and last[2] == '+=' and last[3][0] == 'int'
                and last[3][1] >= 1):
            bad('`while`: %s (the body does not end in `%s += <literal>`)' % (why, v), line)
        if v in self.mutated(body[:-1], set()):
            bad('`while`: %s (`%s` is changed elsewhere in the body)' % (why, v), line)
        mut = self.mutated(body, set())
        bfree = self.free_names(cn[3], [])
        if any(x in mut for x in bfree):
            bad('`while`: %s (the bound mentions `%s`, which the body changes)' % (why, [x for x in bfree if x in mut][0]), line)
        pb, btxt, bt = self.ex(cn[3], c, c.types[v])
        if pb or bt != c.types[v]:
            bad('`while`: %s (the bound can panic, or has type %s)' % (why, bt), line)
        name, n = 'loop' + self.gen_name(c.fn)[3:], 1
        base = name
        while name in self.names:
            n += 1
            name = base + str(n)
        self.names.add(name)
        acc = (['self'] if 'self' in mut else []) + sorted(x for x in mut if x != 'self' and x in c.types)
        for x in acc:
            self.check_assignable(c, x, line)
        free = self.free_names([cnd, body], [])
        cap = sorted(x for x in free if x in c.types and x not in acc and (x == 'self' or c.types[x] in LEAN_T))
        tyof = lambda x: 'RState' if x == 'self' else LEAN_T[c.types[x]]
        acc_pat = vid(acc[0]) if len(acc) == 1 else '(%s)' % ', '.join(vid(x) for x in acc)
        acc_ty = ' × '.join(tyof(x) for x in acc)
        if len(acc) > 1:
            acc_ty = '(%s)' % acc_ty
        params = ''.join(' (%s : %s)' % (vid(x), tyof(x)) for x in cap)
        call = name + ''.join(' ' + vid(x) for x in cap)
        wrap = lambda ty: '(%s)' % ty if ' ' in ty and not ty.startswith('(') else ty
        flow = 'Flow %s %s' % (wrap(acc_ty), wrap(LEAN_T[c.ret]))
        cl = c.copy()
        cl.loop = True
        cl.readonly = set(cap)
        pc, ctxt, ct = self.ex(cnd, cl)
        if pc or ct != 'bool':
            bad('`while`: the test can panic', line)
        lines = ['def %s%s : Nat → %s → %s' % (name, params, acc_ty, flow),
                 '  | 0, %s => if %s then .panic "%s" else .next %s' % (acc_pat, ctxt, self.site(c, 'while (out of fuel)'), acc_pat),
                 '  | n + 1, %s =>' % acc_pat,
                 '    if %s then' % ctxt]
        lines += self.block(body, cl, '      ', lambda c2, i2: [i2 + '%s n %s' % (call, acc_pat)])
        lines += ['    else', '      .next %s' % acc_pat]
        self.defs.append(('the `while %s < …` loop of `%s`: the fuel (`bound - %s` iterations suffice: the body ends in `%s += %d`), '
                          'the accumulators' % (v, c.fn, v, v, last[3][1]), lines))
        out = [ind + 'match %s (%s - %s) %s with' % (call, btxt, vid(v), acc_pat), ind + '| .panic m => .panic m',
               ind + '| .ret self v => %s' % ('.ret self v' if c.loop else '.ok self v'),
               ind + '| .next %s =>' % acc_pat]
        return out + cont(c, ind + '  ')

    # ---- the impl
    def run(self):
        toks = self.toks
        for sname, decl in STRUCTS.items():
            fields, sline = parse_struct(toks, sname)
            if fields != [(f, ty) for f, ty, _ in decl]:
                bad('struct %s: fields %s differ from the translator\'s table %s' % (sname, fields, [(f, ty) for f, ty, _ in decl]), sline)
        tops = top_level_positions(toks)
        ii = [i for i in tops if [x.text for x in toks[i:i + 3]] == ['impl', 'State', '{']]
        if len(ii) != 1:
            bad('expected exactly one `impl State { … }` (found %d)' % len(ii))
        i0 = ii[0] + 2
        iend = matching(toks, i0)
        p = Parser(toks, i0 + 1)
        while p.i < iend:
            t = p.peek()
            if t.text == '#':
                p.next()
                p.i = matching(toks, p.i) + 1          # #[inline], #[allow(..)], doc attributes
                continue
            if t.text == 'pub':
                p.next()
                if p.at('('):
                    p.i = matching(toks, p.i) + 1
                continue
            if t.text != 'fn':
                bad('item in `impl State` that is not a `fn`', t.line)
            p.next()
            self.method(p, t.line)

    def method(self, p, fline):
        toks = self.toks
        name = p.ident()
        if p.at('<'):
            bad('generic method `%s`' % name, fline)
        p.expect('(')
        kind, params = None, []
        if p.at('&'):
            p.next()
            kind = 'ref'
            if p.at('mut'):
                p.next()
                kind = 'mut'
            p.expect('self')
            if p.at(','):
                p.next()
        elif p.at('self') or p.at('mut', 'self'):
            bad('method `%s` takes `self` by value' % name, fline)
        while not p.at(')'):
            pn = p.ident()
            p.expect(':')
            ty = p.type_([',', ')'])
            params.append((pn, ty))
            if p.at(','):
                p.next()
        p.next()
        ret = '()'
        if p.at('->'):
            p.next()
            ret = p.type_(['{'])
        if name in SKIPPED_METHODS:
            p.i = matching(toks, p.i) + 1
            return
        for pn, ty in params:
            if ty not in ('usize', 'u32'):
                bad('method `%s`: parameter `%s: %s`' % (name, pn, ty), fline)
        if ret not in TYPE_TAGS or TYPE_TAGS[ret] not in LEAN_T:
            bad('method `%s`: return type `%s`' % (name, ret), fline)
        rtag = TYPE_TAGS[ret]
        stmts, tail = p.block()
        c = Ctx()
        c.fn, c.ret, c.self_kind = name, rtag, kind
        if kind:
            c.types['self'] = 'State'
        lparams = []
        for pn, ty in params:
            if pn in c.types or clash_rs(pn):
                bad('parameter name `%s`' % pn, fline)
            c.types[pn] = ty
            if ty == 'usize':
                lparams.append('(%s : Nat)' % vid(pn))
        self.tmpn = 0
        gname = self.gen_name(name)
        self.names.add(gname)
        if kind is None:
            if stmts or tail is None or rtag != 'State':
                bad('function `%s` without a receiver: expected a body that is one `State { .. }` expression' % name, fline)
            pre, txt, t = self.ex(tail, c)
            self.want(t, 'State', 'value of `%s`' % name, fline)
            if pre:
                bad('`%s`: the struct literal can panic' % name, fline)
            lines = ['def %s %s : RState :=' % (gname, ' '.join(lparams)), '  ' + txt]
        else:
            if rtag == 'State':
                bad('method `%s` returns a State' % name, fline)
            ndefs = len(self.defs)
            body = self.block(stmts, c, '  ', lambda c2, i2: self.finish(c2, i2, tail))
            lines = ['def %s (self : RState)%s : Res %s :=' % (gname, ''.join(' ' + x for x in lparams), LEAN_T[rtag])] + body
        self.defs.append(('`fn %s` (vm.rs line %d)' % (name, fline), lines))
        self.methods[name] = (kind, [ty for _, ty in params if ty == 'usize'], rtag)
        if any(ty != 'usize' for _, ty in params) and kind is not None:
            bad('method `%s`: a parameter that is not `usize`' % name, fline)

    def render(self):
        L = ['/- generated by tools/rs2lean_state.py from src/vm.rs — do not edit -/',
             'import FancyModel.GenStatePrelude',
             '/-!',
             '# `impl State` (src/vm.rs), translated statement by statement',
             '',
             'One definition per method: the same statements in the same order, as nested `let`s; an assignment shadows (`self` is',
             'the state: its vectors are in the Rust order, oldest entry first); every operation that can panic is a `match` whose',
             'failing arm is `.panic "<method>: <operation>"`; a `for` loop is an auxiliary recursive function over the range / the',
             'slice, whose accumulators are exactly the variables its body changes (`return` inside it is `.ret`). The adaptors',
             '(what is not taken from the Rust text) are in GenStatePrelude.lean. Proofs/C20c.lean proves every definition equal to',
             'the hand-written model (Model/State.lean).',
             '-/',
             'set_option linter.unusedVariables false',
             'namespace Fancy.GenState',
             '']
        for doc, lines in self.defs:
            L.append('/-- %s -/' % doc)
            L += lines
            L.append('')
        L.append('end Fancy.GenState')
        return '\n'.join(L) + '\n'


def translate(src_path):
    tr = Translator(tokenize(open(src_path).read()))
    tr.run()
    return tr.render()


def main(argv):
    src = os.environ.get('RS2LEAN_VM_SRC', DEFAULT_SRC)
    out = os.environ.get('RS2LEAN_STATE_OUT', DEFAULT_OUT)
    args, pos, stub_on_failure = list(argv), [], False
    while args:
        a = args.pop(0)
        if a == '-o':
            out = args.pop(0)
        elif a == '--stub-on-failure':
            stub_on_failure = True
        elif a in ('-h', '--help'):
            print(__doc__)
            return 0
        else:
            pos.append(a)
    if len(pos) > 1:
        print('rs2lean_state.py: too many arguments')
        return 2
    if pos:
        src = pos[0]
    failure = None
    try:
        text = translate(src)
    except Unsupported as e:
        where = '%s:%s: ' % (src, e.line) if e.line else '%s: ' % src
        failure = 'rs2lean_state.py: NOT TRANSLATED - %s%s' % (where, e.msg)
    except Exception as e:                  # whatever goes wrong inside the translator is a refusal: never a stale file
        failure = 'rs2lean_state.py: NOT TRANSLATED - %s: %s: %r' % (src, type(e).__name__, e)
    if failure is not None:
        print(failure)
        if not stub_on_failure or out == '-':
            return 2
        stub = ('/- tools/rs2lean_state.py could not translate `impl State` of src/vm.rs (exit 2):\n%s\n-/\n'
                'namespace Fancy.GenState\n'
                'theorem translator_could_not_read_impl_State : False := by\n'
                '  exact translation_failed   -- deliberately unresolved: see the comment above\n'
                'end Fancy.GenState\n') % failure.replace('-/', '- /')[-1500:]
        old = open(out).read() if os.path.exists(out) else ''
        if old != stub:
            with open(out, 'w') as f:
                f.write(stub)
        print('rs2lean_state.py: `impl State` is not translated; %s now holds a failing stub (Proofs/C20c will not build)' % os.path.basename(out))
        return 0
    if out == '-':
        sys.stdout.write(text)
        return 0
    old = open(out).read() if os.path.exists(out) else None
    if old != text:
        with open(out, 'w') as f:
            f.write(text)
    print('rs2lean_state.py: ok (%s -> %s%s)' % (src, out, '' if old != text else ', unchanged'))
    return 0


if __name__ == '__main__':
    sys.exit(main(sys.argv[1:]))
