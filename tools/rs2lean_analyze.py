#!/usr/bin/env python3
"""Translate `Analyzer::visit` (src/analyze.rs of fancy-regex) into Lean: lean/FancyModel/GeneratedAnalyze.lean.

usage: rs2lean_analyze.py [ANALYZE_RS] [-o OUT.lean] [--lib LIB_RS]
       (ANALYZE_RS defaults to $RS2LEAN_ANALYZE_SRC or /repo/src/analyze.rs,
        OUT to $RS2LEAN_ANALYZE_OUT or lean/FancyModel/GeneratedAnalyze.lean,
        LIB_RS to $RS2LEAN_LIB_SRC, else lib.rs next to ANALYZE_RS, else /repo/src/lib.rs)

The translation is mechanical: a tokenizer and a recursive-descent parser for the statement / expression subset
the function uses, then one Lean `let` (or `match` on an `Except`) per Rust statement, in the same order. Anything
outside the subset is an error (exit status 2, message with the construct and its line) - nothing is guessed.
What is NOT read from the Rust text (the adaptors) is in lean/FancyModel/GenPrelude.lean and in the tables below;
see notes/translator-analyze.md.
"""
import os, re, sys

VERIF = os.path.dirname(os.path.dirname(os.path.abspath(__file__)))
DEFAULT_SRC = '/repo/src/analyze.rs'
DEFAULT_OUT = os.path.join(VERIF, 'lean', 'FancyModel', 'GeneratedAnalyze.lean')


class Unsupported(Exception):
    def __init__(self, msg, line=None):
        Exception.__init__(self, msg)
        self.msg, self.line = msg, line


def bad(msg, line=None):
    raise Unsupported(msg, line)


# ------------------------------------------------------------------------------------------------ tokenizer

TOKEN_RE = re.compile(r'''
   (?P<ws>\s+)
  |(?P<lc>//[^\n]*)
  |(?P<bc>/\*.*?\*/)
  |(?P<rawstr>b?r(?P<hashes>\#*)".*?"(?P=hashes))
  |(?P<str>b?"(?:\\.|[^"\\])*")
  |(?P<chr>'(?:\\.[^']*|[^'\\])')
  |(?P<life>'[A-Za-z_][A-Za-z0-9_]*)
  |(?P<num>0[xob][0-9a-fA-F_]+(?:usize|u8|u16|u32|u64|i32|i64|isize)?|[0-9][0-9_]*\.[0-9][0-9_]*(?:f32|f64)?)
  |(?P<int>[0-9][0-9_]*(?:usize|u8|u16|u32|u64|i32|i64|isize)?(?![A-Za-z0-9_])(?!\.[0-9]))
  |(?P<id>[A-Za-z_][A-Za-z0-9_]*)
  |(?P<op>::|=>|->|==|!=|<=|>=|&&|\|\||\+=|-=|\*=|/=|%=|&=|\|=|\^=|\.\.=|\.\.\.|\.\.|[-+*/%^!&|=<>@.,;:\#$?~(){}\[\]])
''', re.X | re.S)


class Tok:
    __slots__ = ('kind', 'text', 'line')

    def __init__(self, kind, text, line):
        self.kind, self.text, self.line = kind, text, line

    def __repr__(self):
        return '%s@%d' % (self.text, self.line)


def tokenize(src, name=''):
    toks, pos, line = [], 0, 1
    while pos < len(src):
        m = TOKEN_RE.match(src, pos)
        if not m:
            bad('%scannot tokenize %r' % (name and '(%s line %d) ' % (name, line), src[pos:pos + 20]), line)
        kind = m.lastgroup
        if kind == 'hashes':
            kind = 'rawstr'
        text = m.group(0)
        if kind not in ('ws', 'lc', 'bc'):
            toks.append(Tok(kind, text, line))
        line += text.count('\n')
        pos = m.end()
    toks.append(Tok('eof', '<end of file>', line))
    return toks


# ------------------------------------------------------------------------------------------------ parser

class Parser:
    """recursive descent over a token list; `self.i` is the cursor"""

    def __init__(self, toks, i=0):
        self.toks, self.i = toks, i

    def peek(self, k=0):
        return self.toks[min(self.i + k, len(self.toks) - 1)]

    def at(self, *texts):
        for k, t in enumerate(texts):
            if self.peek(k).text != t or self.peek(k).kind in ('str', 'chr', 'rawstr'):
                return False
        return True

    def next(self):
        t = self.toks[self.i]
        self.i += 1
        return t

    def expect(self, text):
        t = self.next()
        if t.text != text or t.kind in ('str', 'chr', 'rawstr'):
            bad('expected `%s`, found `%s`' % (text, t.text), t.line)
        return t

    def ident(self):
        t = self.next()
        if t.kind != 'id':
            bad('expected an identifier, found `%s`' % t.text, t.line)
        return t.text

    # ---- types: kept as the token texts joined by single spaces where needed
    def type_(self, stops):
        """tokens of a type up to one of `stops` at bracket depth 0; returns the normalised string"""
        out, depth = [], 0
        while True:
            t = self.peek()
            if t.kind == 'eof':
                bad('unterminated type', t.line)
            if depth == 0 and t.text in stops:
                break
            if t.text in ('<', '(', '['):
                depth += 1
            elif t.text in ('>', ')', ']'):
                depth -= 1
                if depth < 0:
                    break
            out.append(self.next().text)
        return norm_type(out)

    # ---- expressions (Rust precedence)
    def expr(self, no_struct=False):
        return self.p_oror(no_struct)

    def p_oror(self, ns):
        l = self.p_andand(ns)
        while self.at('||'):
            ln = self.next().line
            l = ('bin', '||', l, self.p_andand(ns), ln)
        return l

    def p_andand(self, ns):
        l = self.p_cmp(ns)
        while self.at('&&'):
            ln = self.next().line
            l = ('bin', '&&', l, self.p_cmp(ns), ln)
        return l

    def p_cmp(self, ns):
        l = self.p_bitor(ns)
        if self.peek().text in ('==', '!=', '<', '<=', '>', '>=') and self.peek().kind == 'op':
            t = self.next()
            r = self.p_bitor(ns)
            if self.peek().text in ('==', '!=', '<', '<=', '>', '>=') and self.peek().kind == 'op':
                bad('chained comparison', self.peek().line)
            return ('bin', t.text, l, r, t.line)
        return l

    def p_bitor(self, ns):
        l = self.p_bitxor(ns)
        while self.at('|'):
            ln = self.next().line
            l = ('bin', '|', l, self.p_bitxor(ns), ln)
        return l

    def p_bitxor(self, ns):
        l = self.p_bitand(ns)
        if self.at('^'):
            bad('operator `^`', self.peek().line)
        return l

    def p_bitand(self, ns):
        l = self.p_add(ns)
        while self.at('&'):
            ln = self.next().line
            l = ('bin', '&', l, self.p_add(ns), ln)
        return l

    def p_add(self, ns):
        l = self.p_mul(ns)
        while self.peek().kind == 'op' and self.peek().text in ('+', '-'):
            t = self.next()
            if t.text == '-':
                bad('operator `-` (usize subtraction is not in the subset)', t.line)
            l = ('bin', '+', l, self.p_mul(ns), t.line)
        return l

    def p_mul(self, ns):
        l = self.p_unary(ns)
        if self.peek().kind == 'op' and self.peek().text in ('*', '/', '%'):
            bad('operator `%s` (use saturating_mul)' % self.peek().text, self.peek().line)
        return l

    def p_unary(self, ns):
        t = self.peek()
        if t.kind == 'op' and t.text == '!':
            self.next()
            return ('not', self.p_unary(ns), t.line)
        if t.kind == 'op' and t.text == '&':
            self.next()
            if self.at('mut'):
                bad('`&mut` expression', t.line)
            return ('ref', self.p_unary(ns), t.line)
        if t.kind == 'op' and t.text == '*':
            self.next()
            return ('deref', self.p_unary(ns), t.line)
        if t.kind == 'op' and t.text == '-':
            bad('unary minus', t.line)
        return self.p_postfix(ns)

    def args(self):
        self.expect('(')
        out = []
        while not self.at(')'):
            out.append(self.expr())
            if not self.at(')'):
                self.expect(',')
        self.expect(')')
        return out

    def p_postfix(self, ns):
        e = self.p_primary(ns)
        while True:
            t = self.peek()
            if t.kind != 'op':
                break
            if t.text == '.':
                self.next()
                nt = self.next()
                if nt.kind != 'id':
                    bad('`.%s` (tuple field / await are not in the subset)' % nt.text, nt.line)
                if self.at('('):
                    e = ('mcall', e, nt.text, self.args(), nt.line)
                elif self.at('::'):
                    bad('turbofish method call', nt.line)
                else:
                    e = ('field', e, nt.text, nt.line)
            elif t.text == '[':
                self.next()
                if self.peek().kind == 'int' and self.at(self.peek().text, '..') and self.peek(2).text == ']':
                    n = int_of(self.next())
                    self.next()
                    idx = ('range_from', n)
                elif self.at('..'):
                    bad('range index `[..` without a start', t.line)
                else:
                    idx = self.expr()
                    if self.at('..') or self.at('..='):
                        bad('range index other than `[N..]`', t.line)
                self.expect(']')
                e = ('index', e, idx, t.line)
            elif t.text == '?':
                self.next()
                e = ('try', e, t.line)
            else:
                break
        return e

    def p_primary(self, ns):
        t = self.next()
        if t.kind == 'int':
            return ('int', int_of(t), t.line)
        if t.kind == 'str':
            return ('str', t.text, t.line)
        if t.kind == 'chr':
            bad('character literal', t.line)
        if t.kind == 'op' and t.text == '(':
            e = self.expr()
            if self.at(','):
                bad('tuple expression', t.line)
            self.expect(')')
            return ('paren', e, t.line)
        if t.kind == 'id':
            if t.text in ('true', 'false'):
                return ('bool', t.text == 'true', t.line)
            if t.text == 'if' and not self.at('let'):
                # `if c { e } else { e }` used for its value: both blocks are single expressions (an `else if` chain nests)
                c = self.expr(no_struct=True)
                self.expect('{')
                a = self.expr()
                if not self.at('}'):
                    bad('`if` in expression position whose block is not a single expression', t.line)
                self.next()
                if not self.at('else'):
                    bad('`if` in expression position without `else`', t.line)
                self.next()
                if self.at('if'):
                    b = self.p_primary(ns)
                else:
                    self.expect('{')
                    b = self.expr()
                    if not self.at('}'):
                        bad('`if` in expression position whose block is not a single expression', t.line)
                    self.next()
                return ('ifexpr', c, a, b, t.line)
            if t.text in ('if', 'match', 'loop', 'while', 'for', 'unsafe', 'move', 'return', 'break', 'continue', 'let', 'as'):
                bad('`%s` in expression position' % t.text, t.line)
            if t.text == 'matches' and self.at('!') and self.peek(1).text == '(':
                self.next()
                self.next()
                scrut = self.expr()
                self.expect(',')
                pats = [self.pattern()]
                while self.at('|'):
                    self.next()
                    pats.append(self.pattern())
                if self.at('if'):
                    bad('`matches!` with a guard', t.line)
                if self.at(','):
                    self.next()
                self.expect(')')
                return ('matches', scrut, pats, t.line)
            path = [t.text]
            while self.at('::'):
                self.next()
                if self.at('<'):
                    bad('generic arguments in a path', t.line)
                path.append(self.ident())
            if self.at('!'):
                bad('macro invocation `%s!`' % '::'.join(path), t.line)
            if self.at('('):
                return ('call', path, self.args(), t.line)
            if self.at('{') and not ns and path[-1][:1].isupper():
                self.next()
                fields = []
                while not self.at('}'):
                    if self.at('..'):
                        # struct update `S { f: v, ..base }`: the base is the pseudo-field `..` (must be last)
                        ut = self.next()
                        fields.append(('..', self.expr(), ut.line))
                        if not self.at('}'):
                            bad('`..base` that is not last in a struct literal', ut.line)
                        break
                    ft = self.peek()
                    name = self.ident()
                    if self.at(':'):
                        self.next()
                        fields.append((name, self.expr(), ft.line))
                    else:
                        fields.append((name, ('path', [name], ft.line), ft.line))
                    if not self.at('}'):
                        self.expect(',')
                self.expect('}')
                return ('struct', path, fields, t.line)
            return ('path', path, t.line)
        bad('unexpected `%s` in an expression' % t.text, t.line)

    # ---- statements
    def block(self):
        """`{ stmt* [tail-expr] }` -> (stmts, tail or None)"""
        self.expect('{')
        stmts, tail = [], None
        while not self.at('}'):
            t = self.peek()
            if tail is not None:
                bad('statement after a tail expression', t.line)
            if t.kind == 'id' and t.text == 'let':
                self.next()
                mut = False
                if self.at('ref'):
                    bad('`let ref`', t.line)
                if self.at('mut'):
                    self.next()
                    mut = True
                if self.peek().kind != 'id' or self.peek(1).text not in (':', '='):
                    bad('`let` with a pattern other than a plain identifier', t.line)
                name = self.ident()
                ty = None
                if self.at(':'):
                    self.next()
                    ty = self.type_(['=', ';'])
                if not self.at('='):
                    bad('`let` without an initialiser', t.line)
                self.next()
                e = self.expr()
                if self.at('else'):
                    bad('`let … else`', t.line)
                self.expect(';')
                stmts.append(('let', name, mut, ty, e, t.line))
            elif t.kind == 'id' and t.text == 'for':
                self.next()
                if self.peek().kind != 'id' or self.peek(1).text != 'in':
                    bad('`for` with a pattern other than a plain identifier', t.line)
                var = self.ident()
                self.expect('in')
                it = self.expr(no_struct=True)
                body, btail = self.block()
                if btail is not None:
                    bad('`for` body with a tail expression', t.line)
                stmts.append(('for', var, it, body, t.line))
            elif t.kind == 'id' and t.text == 'if':
                self.next()
                if self.at('let'):
                    bad('`if let`', t.line)
                c = self.expr(no_struct=True)
                th, ttail = self.block()
                el = None
                if self.at('else'):
                    self.next()
                    if self.at('if'):
                        bad('`else if` (write nested blocks)', t.line)
                    el, etail = self.block()
                    if etail is not None:
                        bad('`if`/`else` used as an expression', t.line)
                if ttail is not None:
                    bad('`if` used as an expression', t.line)
                if self.at(';'):
                    self.next()
                stmts.append(('if', c, th, el, t.line))
            elif t.kind == 'id' and t.text == 'return':
                self.next()
                e = self.expr()
                self.expect(';')
                stmts.append(('return', e, t.line))
            elif t.kind == 'id' and t.text == 'match':
                self.next()
                scrut = self.expr(no_struct=True)
                arms = self.match_arms()
                if self.at(';'):
                    self.next()
                elif not self.at('}'):
                    pass
                stmts.append(('match', scrut, arms, t.line))
            elif t.kind == 'id' and t.text in ('while', 'loop', 'unsafe', 'break', 'continue', 'fn', 'struct', 'use', 'const', 'static'):
                bad('`%s` statement' % t.text, t.line)
            elif t.kind == 'op' and t.text == '{':
                bad('nested block statement', t.line)
            elif t.kind == 'op' and t.text == '#':
                bad('attribute on a statement', t.line)
            else:
                e = self.expr()
                nt = self.peek()
                if nt.kind == 'op' and nt.text in ('=', '+=', '&=', '|=', '-=', '*=', '/=', '%=', '^='):
                    self.next()
                    if nt.text in ('-=', '*=', '/=', '%=', '^='):
                        bad('compound assignment `%s`' % nt.text, nt.line)
                    r = self.expr()
                    self.expect(';')
                    stmts.append(('assign', e, nt.text, r, t.line))
                elif self.at(';'):
                    self.next()
                    stmts.append(('expr', e, t.line))
                elif self.at('}'):
                    tail = e
                else:
                    bad('unexpected `%s` after an expression statement' % nt.text, nt.line)
        self.expect('}')
        return stmts, tail

    def match_arms(self):
        self.expect('{')
        arms = []
        while not self.at('}'):
            t = self.peek()
            pats = [self.pattern()]
            while self.at('|'):
                self.next()
                pats.append(self.pattern())
            guard = None
            if self.at('if'):
                self.next()
                guard = self.expr(no_struct=True)
            self.expect('=>')
            if not self.at('{'):
                bad('match arm whose body is not a `{ … }` block', self.peek().line)
            body, tail = self.block()
            if tail is not None:
                bad('match arm with a value (tail expression)', t.line)
            if self.at(','):
                self.next()
            arms.append((pats, guard, body, t.line))
        self.expect('}')
        return arms

    def subpattern(self):
        """`_` | ident | `ref ident`  -> binding name or None"""
        t = self.peek()
        if self.at('ref'):
            self.next()
            if self.at('mut'):
                bad('`ref mut` binding', t.line)
            return self.ident()
        if self.at('mut'):
            bad('`mut` binding in a pattern', t.line)
        if t.kind == 'id':
            name = self.ident()
            if self.at('@') or self.at('::') or self.at('(') or self.at('{'):
                bad('nested pattern', t.line)
            if name == '_':
                return None
            if name[:1].isupper():
                bad('constant / nested enum pattern `%s`' % name, t.line)
            return name
        bad('pattern `%s …` (only `_`, `x`, `ref x`)' % t.text, t.line)

    def pattern(self):
        """-> ('wild', line) | ('variant', Name, 'unit'|'tuple'|'struct', bindings, rest, line)"""
        t = self.peek()
        if t.kind == 'id' and t.text == '_':
            self.next()
            return ('wild', t.line)
        if t.kind != 'id':
            bad('pattern starting with `%s`' % t.text, t.line)
        path = [self.ident()]
        while self.at('::'):
            self.next()
            path.append(self.ident())
        if len(path) != 2 or path[0] != 'Expr':
            bad('pattern `%s` (only `Expr::Variant …` and `_`)' % '::'.join(path), t.line)
        if self.at('('):
            self.next()
            items, rest = [], False
            while not self.at(')'):
                if self.at('..'):
                    self.next()
                    rest = True
                    if not self.at(')'):
                        bad('`..` that is not last in a tuple pattern', t.line)
                else:
                    items.append(self.subpattern())
                if not self.at(')'):
                    self.expect(',')
            self.expect(')')
            return ('variant', path[1], 'tuple', items, rest, t.line)
        if self.at('{'):
            self.next()
            items, rest = {}, False
            while not self.at('}'):
                if self.at('..'):
                    self.next()
                    rest = True
                    if not self.at('}'):
                        bad('`..` that is not last in a struct pattern', t.line)
                    break
                is_ref = False
                if self.at('ref'):
                    self.next()
                    is_ref = True
                f = self.ident()
                if f in items:
                    bad('field `%s` bound twice' % f, t.line)
                if self.at(':'):
                    if is_ref:
                        bad('`ref f: pat`', t.line)
                    self.next()
                    items[f] = self.subpattern()
                else:
                    items[f] = f
                if not self.at('}'):
                    self.expect(',')
            self.expect('}')
            return ('variant', path[1], 'struct', items, rest, t.line)
        return ('variant', path[1], 'unit', [], False, t.line)


def int_of(t):
    s = re.sub(r'(usize|u8|u16|u32|u64|i32|i64|isize)$', '', t.text).replace('_', '')
    return int(s)


def norm_type(toks):
    s = ''
    for x in toks:
        if s and (s[-1].isalnum() or s[-1] == '_') and (x[0].isalnum() or x[0] == '_' or x[0] == "'"):
            s += ' '
        s += x
    return s


# ------------------------------------------------------------------------------------------------ item lookup

def find_seq(toks, texts, start=0, end=None):
    end = len(toks) if end is None else end
    n = len(texts)
    for i in range(start, end - n + 1):
        if all(toks[i + k].text == texts[k] and toks[i + k].kind not in ('str', 'chr') for k in range(n)):
            return i
    return -1


def matching(toks, i):
    """index of the bracket closing the one at i"""
    open_, close = toks[i].text, {'{': '}', '(': ')', '[': ']'}[toks[i].text]
    depth = 0
    for k in range(i, len(toks)):
        if toks[k].kind in ('str', 'chr', 'rawstr'):
            continue
        if toks[k].text == open_:
            depth += 1
        elif toks[k].text == close:
            depth -= 1
            if depth == 0:
                return k
    bad('unbalanced `%s`' % open_, toks[i].line)


def top_level_positions(toks):
    """indices of tokens at brace depth 0"""
    out, depth = [], 0
    for i, t in enumerate(toks):
        if t.kind in ('str', 'chr', 'rawstr'):
            continue
        if t.text == '}':
            depth -= 1
        if depth == 0:
            out.append(i)
        if t.text == '{':
            depth += 1
    return out


def parse_struct(toks, name):
    """fields [(name, type)] of the top-level `struct name`"""
    tops = set(top_level_positions(toks))
    for i in sorted(tops):
        if toks[i].text == 'struct' and toks[i + 1].text == name:
            p = Parser(toks, i + 2)
            if p.at('<'):
                while not p.at('>'):
                    p.next()
                p.next()
            if not p.at('{'):
                bad('struct %s is not a braced struct' % name, toks[i].line)
            p.next()
            fields = []
            while not p.at('}'):
                while p.at('#'):
                    p.next()
                    p.i = matching(toks, p.i) + 1
                if p.at('pub'):
                    p.next()
                    if p.at('('):
                        p.i = matching(toks, p.i) + 1
                f = p.ident()
                p.expect(':')
                ty = p.type_([',', '}'])
                fields.append((f, ty))
                if p.at(','):
                    p.next()
            return fields, toks[i].line
    bad('cannot find `struct %s`' % name)


def parse_enum(toks, name):
    """variants of `enum name`: [(Variant, 'unit'|'tuple'|'struct', [types] | [(field, type)])]"""
    tops = set(top_level_positions(toks))
    for i in sorted(tops):
        if toks[i].text == 'enum' and toks[i + 1].text == name:
            p = Parser(toks, i + 2)
            p.expect('{')
            out = []
            while not p.at('}'):
                while p.at('#'):
                    p.next()
                    p.i = matching(toks, p.i) + 1
                v = p.ident()
                if p.at('('):
                    p.next()
                    tys = []
                    while not p.at(')'):
                        tys.append(p.type_([',', ')']))
                        if p.at(','):
                            p.next()
                    p.next()
                    out.append((v, 'tuple', tys))
                elif p.at('{'):
                    p.next()
                    fs = []
                    while not p.at('}'):
                        while p.at('#'):
                            p.next()
                            p.i = matching(toks, p.i) + 1
                        f = p.ident()
                        p.expect(':')
                        fs.append((f, p.type_([',', '}'])))
                        if p.at(','):
                            p.next()
                    p.next()
                    out.append((v, 'struct', fs))
                else:
                    out.append((v, 'unit', []))
                if p.at('='):
                    bad('enum %s: explicit discriminant' % name, p.peek().line)
                if p.at(','):
                    p.next()
            return out
    bad('cannot find `enum %s`' % name)


# ------------------------------------------------------------------------------------------------ the adaptor tables

# Rust `Expr` variant -> (shape, fields as declared in src/lib.rs, Lean constructor pattern template).
# The declaration in lib.rs is compared with this table on every run.
# In a template `{x}` is the binder of field x; `_` is a model field the Rust type does not have.
VARIANTS = [
    ('Empty', 'unit', [], '.empty'),
    ('Any', 'struct', [('newline', 'bool')], '.any {newline}'),
    ('Assertion', 'tuple', ['Assertion'], '.assertion {0}'),
    ('Literal', 'struct', [('val', 'String'), ('casei', 'bool')], '.literal {val} {casei}'),
    ('Concat', 'tuple', ['Vec<Expr>'], '.concat {0}'),
    ('Alt', 'tuple', ['Vec<Expr>'], '.alt {0}'),
    ('Group', 'tuple', ['Box<Expr>'], '.group _ {0}'),
    ('LookAround', 'tuple', ['Box<Expr>', 'LookAround'], '.look {0} {1}'),
    ('Repeat', 'struct', [('child', 'Box<Expr>'), ('lo', 'usize'), ('hi', 'usize'), ('greedy', 'bool')],
     '.repeat {child} {lo} {hi} {greedy}'),
    ('Delegate', 'struct', [('inner', 'String'), ('size', 'usize'), ('casei', 'bool')], '.delegate {inner} {size} {casei}'),
    ('Backref', 'tuple', ['usize'], '.backref {0}'),
    ('AtomicGroup', 'tuple', ['Box<Expr>'], '.atomic {0}'),
    ('KeepOut', 'unit', [], '.keepOut'),
    ('ContinueFromPreviousMatchEnd', 'unit', [], '.contPrev'),
    ('BackrefExistsCondition', 'tuple', ['usize'], '.backrefExists {0}'),
    ('Conditional', 'struct', [('condition', 'Box<Expr>'), ('true_branch', 'Box<Expr>'), ('false_branch', 'Box<Expr>')],
     '.cond {condition} {true_branch} {false_branch}'),
    ('SubroutineCall', 'tuple', ['usize'], '.subroutine {0}'),
]
# fields whose model representation differs: (Variant, field) -> Lean function applied to the matched value
FIELD_ADAPTORS = {('Repeat', 'hi'): 'hiVal'}
# Rust type -> type tag used by the checker below
TYPE_TAGS = {'bool': 'bool', 'usize': 'usize', 'String': 'str', '&str': 'str', 'Box<Expr>': 'Expr', "&'a Expr": 'Expr',
             'Vec<Expr>': 'Vec<Expr>', 'Assertion': 'Assertion', 'LookAround': 'LookAround', "Vec<Info<'a>>": 'Vec<Info>',
             "Info<'a>": 'Info'}
LEAN_TYPES = {'bool': 'Bool', 'usize': 'Nat', 'str': 'List Char', 'Expr': 'Expr', 'Vec<Expr>': 'List Expr',
              'Assertion': 'Assertion', 'LookAround': 'Look', 'Vec<Info>': 'List GInfo', 'Info': 'GInfo'}
COMPILE_ERRORS = {'InvalidBackref': 'invalidBackref', 'FeatureNotYetSupported': 'featureNotSupported',
                  'LookBehindNotConst': 'lookBehindNotConst', 'InnerError': 'innerError', 'NamedBackrefOnly': 'namedBackrefOnly'}
INFO_FIELDS_EXPECTED = {'start_group': 'usize', 'end_group': 'usize', 'min_size': 'usize', 'const_size': 'bool', 'hard': 'bool',
                        'expr': 'Expr', 'children': 'Vec<Info>'}
LEAN_KEYWORDS = set('''at end from fun then else if do in open let have show match with where by mut instance def theorem
structure inductive class namespace section variable universe import export deriving macro syntax notation prefix infix
postfix return for unless break continue try catch finally termination_by decreasing_by using from Type Prop Sort
abbrev example axiom opaque private protected partial unsafe noncomputable mutual local scoped attribute set_option
nomatch nofun calc this'''.split())


def lean_id(name):
    return '«%s»' % name if name in LEAN_KEYWORDS else name


def camel(name):
    parts = name.split('_')
    return parts[0] + ''.join(p[:1].upper() + p[1:] for p in parts[1:])


def tag_of(rust_type, line=None):
    if rust_type not in TYPE_TAGS:
        bad('type `%s` is not in the subset' % rust_type, line)
    return TYPE_TAGS[rust_type]


# ------------------------------------------------------------------------------------------------ translation

class Ctx:
    """what is in scope while an arm / a loop body is translated"""

    def __init__(self, tr):
        self.tr = tr
        self.types = {}          # variable -> type tag
        self.mutable = set()
        self.split = {}          # Vec variable -> (head name, tail name) once `v[0]` / `v[1..]` has been taken
        self.arm = None          # Rust variant name (for loop names)
        self.in_loop = False

    def copy(self):
        c = Ctx(self.tr)
        c.types, c.mutable, c.split = dict(self.types), set(self.mutable), dict(self.split)
        c.arm, c.in_loop = self.arm, self.in_loop
        return c


class Translator:
    def __init__(self, toks, lib_toks, src_name):
        self.toks, self.lib_toks, self.src_name = toks, lib_toks, src_name
        self.helpers = {}        # name -> (lean text, param tags, ret tag)
        self.loops = []          # [(name, lines)]
        self.loop_names = set()

    # ---- expressions -> (lean text, type tag)
    def ex(self, e, c):
        k = e[0]
        line = e[-1]
        if k == 'int':
            return str(e[1]), 'usize'
        if k == 'bool':
            return ('true' if e[1] else 'false'), 'bool'
        if k == 'paren':
            return self.ex(e[1], c)
        if k == 'path':
            if len(e[1]) != 1:
                if e[1] == ['usize', 'MAX']:
                    return 'UNSET', 'usize'
                bad('path `%s` as a value' % '::'.join(e[1]), line)
            n = e[1][0]
            if n == 'self':
                bad('`self` as a value', line)
            if n not in c.types:
                bad('unknown variable `%s`' % n, line)
            return lean_id(n), c.types[n]
        if k == 'field':
            if e[1][0] == 'path' and e[1][1] == ['self']:
                if e[2] == 'group_ix':
                    return 'group_ix', 'usize'
                bad('`self.%s` as a value' % e[2], line)
            s, t = self.ex(e[1], c)
            if t != 'Info':
                bad('field `.%s` of a value of type %s' % (e[2], t), line)
            if e[2] not in self.info_fields:
                bad('`Info` has no field `%s`' % e[2], line)
            return '%s.%s' % (s, camel(e[2])), self.info_fields[e[2]]
        if k == 'mcall':
            recv, m, args = e[1], e[2], e[3]
            if recv[0] == 'field' and recv[1][0] == 'path' and recv[1][1] == ['self'] and recv[2] == 'backrefs':
                if m != 'contains' or len(args) != 1:
                    bad('`self.backrefs.%s(…)` (only `contains(g)`)' % m, line)
                a, t = self.ex(args[0], c)
                self.want(t, 'usize', 'argument of backrefs.contains', line)
                return '(bitsetContains br %s)' % a, 'bool'
            if recv[0] == 'path' and recv[1] == ['self']:
                bad('`self.%s(…)` inside an expression (only `let x = self.visit(e)?;`)' % m, line)
            r, t = self.ex(recv, c)
            if m in ('saturating_add', 'saturating_mul'):
                if len(args) != 1:
                    bad('`%s` takes one argument' % m, line)
                self.want(t, 'usize', 'receiver of ' + m, line)
                a, ta = self.ex(args[0], c)
                self.want(ta, 'usize', 'argument of ' + m, line)
                return '(%s %s %s)' % ('satAdd' if m == 'saturating_add' else 'satMul', r, a), 'usize'
            if m == 'is_hard' and t == 'Assertion' and not args:
                return '(Assertion.isHard %s)' % r, 'bool'
            bad('method call `.%s(…)` on a value of type %s' % (m, t), line)
        if k == 'call':
            path, args = e[1], e[2]
            if path == ['min']:
                if not self.min_imported:
                    bad('`min` is called but `use core::cmp::min;` is missing', line)
                if len(args) != 2:
                    bad('`min` takes two arguments', line)
                (a, ta), (b, tb) = self.ex(args[0], c), self.ex(args[1], c)
                self.want(ta, 'usize', 'argument of min', line)
                self.want(tb, 'usize', 'argument of min', line)
                return '(min %s %s)' % (a, b), 'usize'
            if len(path) == 1 and path[0][:1].islower():
                name = path[0]
                h = self.helper(name, line)
                if len(args) != len(h[1]):
                    bad('`%s` takes %d arguments' % (name, len(h[1])), line)
                out = []
                for a, want in zip(args, h[1]):
                    s, t = self.ex(a, c)
                    self.want(t, want, 'argument of ' + name, line)
                    out.append(s)
                return '(%s %s)' % (lean_id(name), ' '.join(out)), h[2]
            bad('call of `%s`' % '::'.join(path), line)
        if k == 'not':
            s, t = self.ex(e[1], c)
            self.want(t, 'bool', 'operand of `!`', line)
            return '(!%s)' % s, 'bool'
        if k == 'bin':
            op = e[1]
            (l, tl), (r, tr) = self.ex(e[2], c), self.ex(e[3], c)
            if op in ('||', '&&', '|', '&'):
                self.want(tl, 'bool', 'left operand of `%s`' % op, line)
                self.want(tr, 'bool', 'right operand of `%s`' % op, line)
                return '(%s %s %s)' % (l, '||' if op in ('||', '|') else '&&', r), 'bool'
            if op in ('==', '!='):
                if tl != tr or tl not in ('usize', 'bool'):
                    bad('`%s` between %s and %s' % (op, tl, tr), line)
                return '(%s %s %s)' % (l, op, r), 'bool'
            if op in ('<', '<=', '>', '>='):
                self.want(tl, 'usize', 'left operand of `%s`' % op, line)
                self.want(tr, 'usize', 'right operand of `%s`' % op, line)
                return '(decide (%s %s %s))' % (l, {'<': '<', '<=': '≤', '>': '>', '>=': '≥'}[op], r), 'bool'
            if op == '+':
                self.want(tl, 'usize', 'left operand of `+`', line)
                self.want(tr, 'usize', 'right operand of `+`', line)
                return '(%s + %s)' % (l, r), 'usize'
            bad('operator `%s`' % op, line)
        if k == 'ref':
            # `&x` of something we treat by value
            s, t = self.ex(e[1], c)
            if t in ('str', 'Expr'):
                return s, t
            bad('`&` of a value of type %s' % t, line)
        if k == 'ifexpr':
            (cs, tc), (a, ta), (b, tb) = self.ex(e[1], c), self.ex(e[2], c), self.ex(e[3], c)
            self.want(tc, 'bool', 'condition of `if`', line)
            if ta != tb:
                bad('`if` expression with branches of type %s and %s' % (ta, tb), line)
            return '(if %s then %s else %s)' % (cs, a, b), ta
        if k == 'matches':
            # `matches!(x, Expr::V(..) | ..)`: sub-patterns may only be `_` / `..` (no bindings, no literals)
            x = e[1]
            while x[0] in ('deref', 'ref', 'paren'):
                x = x[1]
            s, t = self.ex(x, c)
            self.want(t, 'Expr', 'scrutinee of `matches!`', line)
            alts = []
            for p in e[2]:
                if p[0] == 'wild':
                    return 'true', 'bool'
                if p[0] != 'variant' or p[1] not in {v[0] for v in VARIANTS}:
                    bad('`matches!` pattern', line)
                subs = p[3].values() if isinstance(p[3], dict) else p[3]
                if any(x is not None for x in subs):
                    bad('`matches!` pattern with a binding or a literal', line)
                templ = [v[3] for v in VARIANTS if v[0] == p[1]][0]
                alts.append(' '.join([templ.split()[0]] + ['_'] * (len(templ.split()) - 1)))
            return '(match %s with%s | _ => false)' % (s, ''.join(' | %s => true' % a for a in alts)), 'bool'
        if k == 'deref':
            bad('`*` dereference in an expression', line)
        if k == 'index':
            bad('indexing outside `self.visit(&v[0])` / `for x in &v[1..]`', line)
        if k == 'try':
            bad('`?` outside `let x = self.visit(e)?;`', line)
        if k == 'str':
            bad('string literal as a value', line)
        if k == 'struct':
            bad('struct literal outside the final `Ok(Info { … })`', line)
        bad('expression form %s' % k, line)

    def want(self, got, want, what, line):
        if got != want:
            bad('%s has type %s, expected %s' % (what, got, want), line)

    # ---- helper functions called from `visit` (e.g. literal_const_size)
    def helper(self, name, line):
        if name in self.helpers:
            return self.helpers[name]
        toks = self.toks
        tops = top_level_positions(toks)
        for i in tops:
            if toks[i].text == 'fn' and toks[i + 1].text == name:
                p = Parser(toks, i + 2)
                if p.at('<'):
                    bad('generic helper function `%s`' % name, toks[i].line)
                p.expect('(')
                params = []
                while not p.at(')'):
                    pn = p.ident()
                    p.expect(':')
                    ty = tag_of(p.type_([',', ')']), toks[i].line)
                    params.append((pn, ty))
                    if p.at(','):
                        p.next()
                p.next()
                p.expect('->')
                ret = tag_of(p.type_(['{']), toks[i].line)
                stmts, tail = p.block()
                if stmts or tail is None:
                    bad('helper function `%s`: the body must be a single expression' % name, toks[i].line)
                c = Ctx(self)
                for pn, ty in params:
                    if pn != '_':
                        c.types[pn] = ty
                self.helpers[name] = (None, [t for _, t in params], ret)     # (recursion guard)
                body, bt = self.ex(tail, c)
                self.want(bt, ret, 'body of ' + name, toks[i].line)
                text = 'def %s %s : %s := %s' % (
                    lean_id(name), ' '.join('(%s : %s)' % (lean_id(pn), LEAN_TYPES[ty]) for pn, ty in params), LEAN_TYPES[ret], body)
                self.helpers[name] = (text, [t for _, t in params], ret)
                self.helper_order.append(name)
                return self.helpers[name]
        bad('call of `%s`, which is not a function of this file' % name, line)

    # ---- statements, continuation-passing: `k(ctx, ind)` yields the lines of what follows
    def acc_record(self, ind):
        return ind + '{ ' + ', '.join('%s := %s' % (lean_id(a), lean_id(a)) for a in self.acc_vars) + ' }'

    def unpack_acc(self, ind):
        return [ind + 'let %s := acc.%s' % (lean_id(a), lean_id(a)) for a in self.acc_vars]

    def visit_arg(self, arg, c, ind, line, k):
        """lines for evaluating the argument of self.visit; calls k(lean text of the Expr)"""
        if arg[0] == 'ref' and arg[1][0] == 'index':
            base, idx = arg[1][1], arg[1][2]
            if base[0] != 'path' or len(base[1]) != 1 or c.types.get(base[1][0]) != 'Vec<Expr>':
                bad('indexing something that is not a `Vec<Expr>` variable', line)
            if idx[0] != 'int' or idx[1] != 0:
                bad('index other than `[0]`', line)
            v = base[1][0]
            return self.with_split(v, c, ind, line, lambda c2, ind2: k(c2, ind2, c2.split[v][0]))
        s, t = self.ex(arg, c)
        self.want(t, 'Expr', 'argument of self.visit', line)
        return k(c, ind, s)

    def with_split(self, v, c, ind, line, k):
        """make sure `v` is destructured as head :: tail (an empty `v` is the index panic)"""
        if v in c.split:
            return k(c, ind)
        if c.in_loop:
            bad('indexing `%s` inside a loop body' % v, line)
        head, tail = v + '_0', v + '_tail'
        if head in c.types or tail in c.types:
            bad('name clash on `%s` / `%s`' % (head, tail), line)
        c2 = c.copy()
        c2.split[v] = (head, tail)
        out = [ind + 'match %s with' % lean_id(v), ind + '| [] => .error .indexPanic', ind + '| %s :: %s =>' % (head, tail)]
        return out + k(c2, ind + '  ')

    def block(self, stmts, c, ind, k):
        if not stmts:
            return k(c, ind)
        s, rest = stmts[0], stmts[1:]
        kind, line = s[0], s[-1]
        cont = lambda c2, ind2: self.block(rest, c2, ind2, k)
        if kind == 'let':
            _, name, mut, ty, e, _ = s
            if name in c.types or name in ('acc', 'br', 'err', 'group_ix', 'self') or name in self.loop_names:
                bad('`let %s` shadows a name that is in scope (shadowing is not in the subset)' % name, line)
            if e[0] == 'try':
                inner = e[1]
                if not (inner[0] == 'mcall' and inner[1][0] == 'path' and inner[1][1] == ['self'] and inner[2] == 'visit'
                        and len(inner[3]) == 1):
                    bad('`?` on something other than `self.visit(e)`', line)
                if mut or ty:
                    bad('`let mut` / typed `let` on a `self.visit` result', line)

                def after_arg(c2, ind2, arg):
                    c3 = c2.copy()
                    c3.types[name] = 'Info'
                    return ([ind2 + 'match genVisit br %s group_ix with' % arg, ind2 + '| .error err => .error err',
                             ind2 + '| .ok (%s, group_ix) =>' % lean_id(name)] + cont(c3, ind2 + '  '))
                return self.visit_arg(inner[3][0], c, ind, line, after_arg)
            if self.mentions_visit(e):
                bad('`self.visit` without `?` or inside a larger expression', line)
            txt, t = self.ex(e, c)
            if ty is not None and tag_of(ty, line) != t:
                bad('`let %s: %s` initialised with a value of type %s' % (name, ty, t), line)
            c2 = c.copy()
            c2.types[name] = t
            if mut:
                c2.mutable.add(name)
            return [ind + 'let %s : %s := %s' % (lean_id(name), LEAN_TYPES[t], txt)] + cont(c2, ind)
        if kind == 'assign':
            _, target, op, e, _ = s
            if target[0] == 'field' and target[1][0] == 'path' and target[1][1] == ['self'] and target[2] == 'group_ix':
                tname, ttype = 'group_ix', 'usize'
            elif target[0] == 'path' and len(target[1]) == 1 and target[1][0] in c.types:
                tname, ttype = target[1][0], c.types[target[1][0]]
                if tname not in c.mutable:
                    bad('assignment to `%s`, which is not `let mut`' % tname, line)
            else:
                bad('assignment to something other than a `let mut` local or `self.group_ix`', line)
            txt, t = self.ex(e, c)
            self.want(t, ttype, 'right-hand side of `%s %s`' % (tname, op), line)
            if op == '=':
                rhs = txt
            elif op in ('&=', '|='):
                self.want(ttype, 'bool', 'target of `%s`' % op, line)
                rhs = '(%s %s %s)' % (lean_id(tname), '&&' if op == '&=' else '||', txt)
            elif op == '+=':
                self.want(ttype, 'usize', 'target of `+=`', line)
                rhs = '(%s + %s)' % (lean_id(tname), txt)
            else:
                bad('assignment operator `%s`' % op, line)
            return [ind + 'let %s : %s := %s' % (lean_id(tname), LEAN_TYPES[ttype], rhs)] + cont(c, ind)
        if kind == 'expr':
            e = s[1]
            if e[0] == 'mcall' and e[2] == 'push' and e[1][0] == 'path' and len(e[1][1]) == 1 and len(e[3]) == 1:
                v = e[1][1][0]
                if c.types.get(v) != 'Vec<Info>' or v not in c.mutable:
                    bad('`%s.push(…)` on something that is not a `let mut` Vec<Info>' % v, line)
                txt, t = self.ex(e[3][0], c)
                self.want(t, 'Info', 'argument of push', line)
                return [ind + 'let %s : List GInfo := (%s ++ [%s])' % (lean_id(v), lean_id(v), txt)] + cont(c, ind)
            bad('expression statement that is not `children.push(x)`', line)
        if kind == 'for':
            _, var, it, body, _ = s
            if c.in_loop:
                bad('nested `for` loop', line)
            if var in c.types:
                bad('loop variable `%s` shadows a name in scope' % var, line)

            def emit_loop(c2, ind2, lst):
                name = self.new_loop(c2.arm, var, body, line)
                out = [ind2 + 'match %s br %s' % (name, lst), self.acc_record(ind2 + '    ') + ' with',
                       ind2 + '| .error err => .error err', ind2 + '| .ok acc =>'] + self.unpack_acc(ind2 + '  ')
                return out + cont(c2, ind2 + '  ')
            if it[0] == 'path' and len(it[1]) == 1 and c.types.get(it[1][0]) == 'Vec<Expr>':
                return emit_loop(c, ind, lean_id(it[1][0]))
            if (it[0] == 'ref' and it[1][0] == 'index' and it[1][1][0] == 'path' and len(it[1][1][1]) == 1
                    and c.types.get(it[1][1][1][0]) == 'Vec<Expr>' and it[1][2][0] == 'range_from'):
                if it[1][2][1] != 1:
                    bad('slice `[%d..]` (only `[1..]`)' % it[1][2][1], line)
                v = it[1][1][1][0]
                return self.with_split(v, c, ind, line, lambda c2, ind2: emit_loop(c2, ind2, c2.split[v][1]))
            bad('`for` over something other than `v` or `&v[1..]` with v: Vec<Expr>', line)
        if kind == 'if':
            _, cond, th, el, _ = s
            if self.mentions_visit(cond):
                bad('`self.visit` in a condition', line)
            txt, t = self.ex(cond, c)
            self.want(t, 'bool', 'condition of `if`', line)
            out = [ind + 'if %s then' % txt]
            out += self.block(th, c.copy(), ind + '  ', lambda c2, ind2: self.leave_scope(c, c2, cont, ind2, line))
            out += [ind + 'else']
            out += self.block(el or [], c.copy(), ind + '  ', lambda c2, ind2: self.leave_scope(c, c2, cont, ind2, line))
            return out
        if kind == 'return':
            e = s[1]
            if rest:
                bad('statement after `return`', rest[0][-1])
            return [ind + self.err_value(e, line)]
        if kind == 'match':
            bad('nested `match`', line)
        bad('statement form %s' % kind, line)

    def leave_scope(self, outer, inner, cont, ind, line):
        """continue after an `if` block: block-local variables go out of scope"""
        c = outer.copy()
        c.split = dict(inner.split) if set(inner.split) == set(outer.split) else bad(
            '`v[0]` / `v[1..]` first used inside an `if` block', line)
        return cont(c, ind)

    def mentions_visit(self, e):
        if isinstance(e, tuple):
            if e[0] == 'mcall' and e[1][0] == 'path' and e[1][1] == ['self']:
                return True
            return any(self.mentions_visit(x) for x in e[1:])
        if isinstance(e, list):
            return any(self.mentions_visit(x) for x in e)
        return False

    def err_value(self, e, line):
        """`Err(Error::CompileError(CompileError::X(..)))` -> Lean"""
        if not (e[0] == 'call' and e[1] == ['Err'] and len(e[2]) == 1):
            bad('`return` of something other than `Err(…)`', line)
        a = e[2][0]
        if not (a[0] == 'call' and a[1] == ['Error', 'CompileError'] and len(a[2]) == 1):
            bad('`Err` of something other than `Error::CompileError(…)`', line)
        b = a[2][0]
        if b[0] == 'call' and len(b[1]) == 2 and b[1][0] == 'CompileError':
            x = b[1][1]
        elif b[0] == 'path' and len(b[1]) == 2 and b[1][0] == 'CompileError':
            x = b[1][1]
        else:
            bad('`Error::CompileError` of something other than `CompileError::X`', line)
        if x not in COMPILE_ERRORS:
            bad('`CompileError::%s` has no counterpart in the model' % x, line)
        return '.error (.compile .%s)' % COMPILE_ERRORS[x]

    def free_locals(self, stmts):
        """names read or written in a statement list (over-approximation: every identifier path of length 1)"""
        out = set()

        def walk(x):
            if isinstance(x, tuple):
                if x and x[0] == 'path' and len(x[1]) == 1:
                    out.add(x[1][0])
                for y in x[1:]:
                    walk(y)
            elif isinstance(x, list):
                for y in x:
                    walk(y)
        walk(stmts)
        return out

    def new_loop(self, arm, var, body, line):
        base = 'loop' + (arm or 'X')
        name, n = base, 1
        while name in self.loop_names:
            n += 1
            name = base + str(n)
        self.loop_names.add(name)
        c = Ctx(self)
        c.arm, c.in_loop = arm, True
        for a in self.acc_vars:
            c.types[a] = self.acc_types[a]
            if a != 'group_ix':
                c.mutable.add(a)
        c.types[var] = 'Expr'
        declared = set(s[1] for s in body if s[0] == 'let')
        for n_ in sorted(self.free_locals(body)):
            if n_ not in c.types and n_ not in declared and n_ != 'self' and n_ in self.all_locals:
                bad('the loop body reads `%s`, a local that is not one of the `let mut` accumulators' % n_, line)
        tail = var + '_rest'
        ind = '    '
        lines = ['def %s (br : Nat → Bool) : List Expr → Acc → Except GErr Acc' % name,
                 '  | [], acc => .ok acc',
                 '  | %s :: %s, acc =>' % (lean_id(var), tail)]
        lines += self.unpack_acc(ind)
        lines += self.block(body, c, ind, lambda c2, ind2: [ind2 + '%s br %s' % (name, tail), self.acc_record(ind2 + '  ')])
        self.loops.append((name, lines))
        return name

    # ---- the function
    def run(self):
        toks = self.toks
        tops = top_level_positions(toks)
        # `use core::cmp::min;`
        self.min_imported = find_seq(toks, ['use', 'core', '::', 'cmp', '::', 'min', ';']) in tops or \
            find_seq(toks, ['use', 'std', '::', 'cmp', '::', 'min', ';']) in tops
        # struct Info
        fields, _ = parse_struct(toks, 'Info')
        self.info_fields = {}
        self.info_order = []
        for f, ty in fields:
            self.info_fields[f] = tag_of(ty)
            self.info_order.append(f)
        if self.info_fields != INFO_FIELDS_EXPECTED:
            bad('struct Info: fields %s differ from the expected %s (the proofs and the facts hook read these)' % (
                sorted(self.info_fields.items()), sorted(INFO_FIELDS_EXPECTED.items())))
        # struct Analyzer
        afields, aline = parse_struct(toks, 'Analyzer')
        if afields != [('backrefs', "&'a BitSet"), ('group_ix', 'usize')]:
            bad('struct Analyzer: fields %s (expected backrefs: &BitSet, group_ix: usize)' % afields, aline)
        if find_seq(toks, ['use', 'bit_set', '::', 'BitSet', ';']) not in tops:
            bad('`use bit_set::BitSet;` not found (the adaptor for `contains` is for that type)')
        # enum Expr in lib.rs against the table
        decl = parse_enum(self.lib_toks, 'Expr')
        table = [(v, shape, fs) for v, shape, fs, _ in VARIANTS]
        if decl != table:
            bad('enum Expr (lib.rs) differs from the translator\'s variant table:\n  declared: %s\n  table:    %s' % (
                [d for d in decl if d not in table], [d for d in table if d not in decl]))
        # impl Analyzer { fn visit }
        ii = -1
        for i in tops:
            if toks[i].text == 'impl':
                j = i
                while toks[j].text != '{':
                    j += 1
                if [t.text for t in toks[i:j]] == ['impl', '<', "'a", '>', 'Analyzer', '<', "'a", '>']:
                    ii = j
        if ii < 0:
            bad("cannot find `impl<'a> Analyzer<'a>`")
        iend = matching(toks, ii)
        sig = ['fn', 'visit', '(', '&', 'mut', 'self', ',', 'expr', ':', '&', "'a", 'Expr', ')', '->', 'Result', '<', 'Info', '<', "'a",
               '>', '>', '{']
        fi = find_seq(toks, sig, ii, iend)
        if fi < 0:
            bad("cannot find `fn visit(&mut self, expr: &'a Expr) -> Result<Info<'a>>` in impl Analyzer", toks[ii].line)
        p = Parser(toks, fi + len(sig) - 1)
        stmts, tail = p.block()
        self.translate_visit(stmts, tail, toks[fi].line)
        # fn analyze: the initial group_ix
        tmpl = ['pub', 'fn', 'analyze', '<', "'a", '>', '(', 'tree', ':', '&', "'a", 'ExprTree', ')', '->', 'Result', '<', 'Info', '<',
                "'a", '>', '>', '{', 'let', 'mut', 'analyzer', '=', 'Analyzer', '{', 'backrefs', ':', '&', 'tree', '.', 'backrefs', ',',
                'group_ix', ':', None, ',', '}', ';', 'analyzer', '.', 'visit', '(', '&', 'tree', '.', 'expr', ')', '}']
        ai = find_seq(toks, tmpl[:3])
        if ai < 0:
            bad('cannot find `pub fn analyze`')
        got = toks[ai:ai + len(tmpl)]
        for g, w in zip(got, tmpl):
            if w is None:
                if g.kind != 'int':
                    bad('fn analyze: initial group_ix is not an integer literal', g.line)
                self.init_group_ix = int_of(g)
            elif g.text != w:
                bad('fn analyze: unexpected shape at `%s` (expected `%s`)' % (g.text, w), g.line)

    def translate_visit(self, stmts, tail, fline):
        # prelude: `let` statements; then exactly one `match *expr { … }`; then the tail `Ok(Info { … })`
        mi = [i for i, s in enumerate(stmts) if s[0] == 'match']
        if len(mi) != 1 or mi[0] != len(stmts) - 1:
            bad('fn visit: expected `let …;`* then one `match *expr { … };` then `Ok(Info { … })`', fline)
        prelude, m = stmts[:-1], stmts[-1]
        if tail is None:
            bad('fn visit: no tail expression', fline)
        _, scrut, arms, mline = m
        if not (scrut[0] == 'deref' and scrut[1][0] == 'path' and scrut[1][1] == ['expr']):
            bad('the match scrutinee is not `*expr`', mline)
        # the tail
        if not (tail[0] == 'call' and tail[1] == ['Ok'] and len(tail[2]) == 1 and tail[2][0][0] == 'struct'
                and tail[2][0][1] == ['Info']):
            bad('the tail of fn visit is not `Ok(Info { … })`', tail[-1])
        tail_fields = tail[2][0][2]
        names = [f for f, _, _ in tail_fields]
        if sorted(names) != sorted(self.info_fields):
            bad('`Info { … }` does not give every field exactly once', tail[-1])
        # the prelude: types of the locals
        self.all_locals = set()
        base = Ctx(self)
        base.types['expr'] = 'Expr'
        prelude_lines = []
        self.acc_vars, self.acc_types = ['group_ix'], {'group_ix': 'usize'}
        for s in prelude:
            if s[0] != 'let':
                bad('statement before the match that is not a `let`', s[-1])
            _, name, mut, ty, e, line = s
            if name in base.types or name in ('acc', 'br', 'err', 'group_ix', 'self'):
                bad('`let %s` shadows a name in scope' % name, line)
            if e[0] == 'call' and e[1] == ['Vec', 'new'] and not e[2]:
                # element type: from the field of `Info { … }` the variable ends up in
                t = None
                for f, fe, _ in tail_fields:
                    if fe[0] == 'path' and fe[1] == [name]:
                        t = self.info_fields[f]
                if ty is not None:
                    t = tag_of(ty, line)
                if t not in ('Vec<Info>',):
                    bad('`Vec::new()` whose element type cannot be determined', line)
                txt = '[]'
            else:
                if self.mentions_visit(e):
                    bad('`self.visit` before the match', line)
                txt, t = self.ex(e, base)
                if ty is not None and tag_of(ty, line) != t:
                    bad('`let %s: %s` initialised with a value of type %s' % (name, ty, t), line)
            base.types[name] = t
            if mut:
                base.mutable.add(name)
                self.acc_vars.append(name)
                self.acc_types[name] = t
            prelude_lines.append('let %s : %s := %s' % (lean_id(name), LEAN_TYPES[t], txt))
        # every local declared anywhere in the arms (for the loop free-variable check)
        def collect(ss):
            for s in ss:
                if s[0] == 'let':
                    self.all_locals.add(s[1])
                elif s[0] == 'for':
                    collect(s[3])
                elif s[0] == 'if':
                    collect(s[2])
                    collect(s[3] or [])
        self.all_locals |= set(base.types)
        for a in arms:
            collect(a[2])
            for pat in a[0]:
                if pat[0] == 'variant':
                    items = pat[3].values() if isinstance(pat[3], dict) else pat[3]
                    self.all_locals |= set(x for x in items if x)

        def finish(c, ind):
            vals = {}
            for f, fe, fl in tail_fields:
                if fe[0] == 'path' and fe[1] == ['expr']:
                    vals[f] = ('expr', 'Expr')
                else:
                    vals[f] = self.ex(fe, c)
                self.want(vals[f][1], self.info_fields[f], 'field `%s` of Info' % f, fl)
            rec = ', '.join('%s := %s' % (camel(f), vals[f][0]) for f in names)
            return [ind + '.ok ({ %s }, group_ix)' % rec]

        # arms per constructor, in first-match order
        table = {v: (shape, fs, tmpl) for v, shape, fs, tmpl in VARIANTS}
        per = {v: [] for v, _, _, _ in VARIANTS}
        order = []
        for pats, guard, body, aline in arms:
            for pat in pats:
                if pat[0] == 'wild':
                    if len(pats) > 1:
                        bad('`_` inside an or-pattern', aline)
                    for v in per:
                        per[v].append(({}, guard, body, aline, v))
                        if v not in order:
                            order.append(v)
                    continue
                _, v, shape, items, rest, pline = pat
                if v not in table:
                    bad('`Expr::%s` is not a variant in the translator\'s table' % v, pline)
                tshape, tfields, _ = table[v]
                binds = {}
                if tshape == 'unit':
                    if shape != 'unit':
                        bad('pattern shape for unit variant `Expr::%s`' % v, pline)
                elif tshape == 'tuple':
                    if shape != 'tuple':
                        bad('`Expr::%s` is a tuple variant' % v, pline)
                    if len(items) > len(tfields) or (len(items) < len(tfields) and not rest):
                        bad('`Expr::%s(…)`: wrong number of fields' % v, pline)
                    for i, b in enumerate(items):
                        if b:
                            binds[str(i)] = b
                else:
                    if shape != 'struct':
                        bad('`Expr::%s` is a struct variant' % v, pline)
                    fnames = [f for f, _ in tfields]
                    for f, b in items.items():
                        if f not in fnames:
                            bad('`Expr::%s` has no field `%s`' % (v, f), pline)
                        if b:
                            binds[f] = b
                    if not rest and set(items) != set(fnames):
                        bad('`Expr::%s { … }` without `..` does not name every field' % v, pline)
                if len(pats) > 1 and binds:
                    bad('bindings inside an or-pattern', pline)
                per[v].append((binds, guard, body, aline, v))
                if v not in order:
                    order.append(v)
        for v, _, _, _ in VARIANTS:
            if not per[v]:
                bad('`Expr::%s` is not covered by any arm of the match' % v, mline)
        out = []
        for v in order:
            tshape, tfields, tmpl = table[v]
            cands = per[v]
            # reachable arms: up to the first one without a guard
            chain = []
            for cand in cands:
                chain.append(cand)
                if cand[1] is None:
                    break
            else:
                bad('`Expr::%s` is not covered by an arm without a guard' % v, mline)
            keys = [str(i) for i in range(len(tfields))] if tshape == 'tuple' else [f for f, _ in tfields]
            ftypes = dict(zip(keys, [tag_of(t) for t in (tfields if tshape == 'tuple' else [t for _, t in tfields])]))
            names_ = {}
            for binds, _, _, aline, _ in chain:
                for key, b in binds.items():
                    if names_.setdefault(key, b) != b:
                        bad('arms for `Expr::%s` bind the same field to different names (`%s`, `%s`)' % (v, names_[key], b), aline)
            if len(set(names_.values())) != len(names_):
                bad('`Expr::%s`: one name bound to two fields' % v, chain[0][3])
            c = base.copy()
            c.arm = v
            pat_args, adapt = {}, []
            for key in keys:
                if key in names_:
                    b = names_[key]
                    if b in c.types or b in ('acc', 'br', 'err', 'group_ix', 'self'):
                        bad('pattern binding `%s` shadows a local' % b, chain[0][3])
                    c.types[b] = ftypes[key]
                    if (v, key) in FIELD_ADAPTORS:
                        pat_args[key] = b + '_m'
                        adapt.append('let %s : %s := %s %s_m' % (lean_id(b), LEAN_TYPES[ftypes[key]], FIELD_ADAPTORS[(v, key)], b))
                    else:
                        pat_args[key] = lean_id(b)
                else:
                    pat_args[key] = '_'
            lean_pat = tmpl.format(*[pat_args.get(str(i), '_') for i in range(len(keys))], **{k2: v2 for k2, v2 in pat_args.items()
                                                                                          if not k2.isdigit()})
            out.append('  | expr@(%s), group_ix =>' % lean_pat if ' ' in lean_pat else '  | expr@%s, group_ix =>' % lean_pat)
            ind = '    '
            out += [ind + l for l in prelude_lines] + [ind + l for l in adapt]

            def chain_lines(idx, ind):
                binds, guard, body, aline, _ = chain[idx]
                if guard is None:
                    return self.block(body, c.copy(), ind, finish)
                if self.mentions_visit(guard):
                    bad('`self.visit` in a guard', aline)
                g, t = self.ex(guard, c)
                self.want(t, 'bool', 'match guard', aline)
                return ([ind + 'if %s then' % g] + self.block(body, c.copy(), ind + '  ', finish) + [ind + 'else']
                        + chain_lines(idx + 1, ind + '  '))
            out += chain_lines(0, ind)
        self.visit_lines = out

    def render(self):
        L = []
        L.append('/- generated by tools/rs2lean_analyze.py from src/analyze.rs — do not edit -/')
        L.append('import FancyModel.GenPrelude')
        L.append('/-!')
        L.append('# `Analyzer::visit` (src/analyze.rs), translated statement by statement')
        L.append('')
        L.append('The same statements in the same order, as nested `let`s; `?` and `return Err(..)` as matches on `Except`; every')
        L.append('`for` loop as a structurally recursive function over the `List Expr`; the mutable locals and `self.group_ix` travel')
        L.append('through the loops in `Acc`. The adaptors (what is not taken from the Rust text) are in GenPrelude.lean.')
        L.append('Proofs/C13c.lean proves this equal to the hand-written model (Model/Analyze.lean).')
        L.append('-/')
        L.append('set_option linter.unusedVariables false')
        L.append('namespace Fancy.GenAnalyze')
        L.append('')
        L.append('/-- `struct Info` (the fields in the order of the declaration) -/')
        L.append('structure GInfo where')
        for f in self.info_order:
            L.append('  %s : %s' % (camel(f), LEAN_TYPES[self.info_fields[f]]))
        L.append('deriving Repr, Inhabited')
        L.append('')
        L.append('/-- `self.group_ix` and the `let mut` locals of `visit`, as handed to and returned by the `for` loops -/')
        L.append('structure Acc where')
        for a in self.acc_vars:
            L.append('  %s : %s' % (lean_id(a), LEAN_TYPES[self.acc_types[a]]))
        L.append('')
        for h in self.helper_order:
            L.append('/-- `fn %s` -/' % h)
            L.append(self.helpers[h][0])
            L.append('')
        L.append('mutual')
        L.append('/-- `Analyzer::visit`; the second component of the result is `self.group_ix` afterwards -/')
        L.append('def genVisit (br : Nat → Bool) : Expr → Nat → Except GErr (GInfo × Nat)')
        L += self.visit_lines
        for name, lines in self.loops:
            L.append('/-- a `for` loop of the `%s` arm -/' % name[4:])
            L += lines
        L.append('end')
        L.append('')
        L.append('/-- `analyze`: a fresh `Analyzer { backrefs, group_ix: %d }` visits the tree -/' % self.init_group_ix)
        L.append('def genAnalyze (br : Nat → Bool) (expr : Expr) : Except GErr GInfo :=')
        L.append('  match genVisit br expr %d with' % self.init_group_ix)
        L.append('  | .error err => .error err')
        L.append('  | .ok (info, _) => .ok info')
        L.append('')
        L.append('end Fancy.GenAnalyze')
        return '\n'.join(L) + '\n'


def translate(src_path, lib_path):
    src = open(src_path).read()
    lib = open(lib_path).read()
    tr = Translator(tokenize(src), tokenize(lib, lib_path), src_path)
    tr.helper_order = []
    tr.run()
    return tr.render()


def main(argv):
    src = os.environ.get('RS2LEAN_ANALYZE_SRC', DEFAULT_SRC)
    out = os.environ.get('RS2LEAN_ANALYZE_OUT', DEFAULT_OUT)
    lib = os.environ.get('RS2LEAN_LIB_SRC')
    args = list(argv)
    pos = []
    while args:
        a = args.pop(0)
        if a == '-o':
            out = args.pop(0)
        elif a == '--lib':
            lib = args.pop(0)
        elif a in ('-h', '--help'):
            print(__doc__)
            return 0
        else:
            pos.append(a)
    if len(pos) > 1:
        print('rs2lean_analyze.py: too many arguments')
        return 2
    if pos:
        src = pos[0]
    if lib is None:
        sib = os.path.join(os.path.dirname(os.path.abspath(src)), 'lib.rs')
        lib = sib if os.path.exists(sib) else '/repo/src/lib.rs'
    try:
        text = translate(src, lib)
    except Unsupported as e:
        where = '%s:%s: ' % (src, e.line) if e.line else '%s: ' % src
        print('rs2lean_analyze.py: NOT TRANSLATED - %s%s' % (where, e.msg))
        return 2
    except (OSError, IndexError) as e:
        print('rs2lean_analyze.py: NOT TRANSLATED - %s: %r' % (src, e))
        return 2
    if out == '-':
        sys.stdout.write(text)
        return 0
    old = open(out).read() if os.path.exists(out) else None
    if old != text:
        with open(out, 'w') as f:
            f.write(text)
    print('rs2lean_analyze.py: ok (%s -> %s%s)' % (src, out, '' if old != text else ', unchanged'))
    return 0


if __name__ == '__main__':
    sys.exit(main(sys.argv[1:]))
