#!/usr/bin/env python3
"""Sensitivity of the parser tie (tools/rs2lean_parse.py + lean/FancyModel/Proofs/C06d.lean).

For the unmutated /repo/src/parse.rs, fifteen hand-made mutations (a)-(o), three controls (p)-(r) and every
seeded/*/*/patch.diff that touches src/parse.rs: make a scratch COPY of the crate's src/ directory, mutate / patch it,
translate it into a scratch GeneratedParse.lean, compile that to a scratch .olean (module ParseScratch.GeneratedParse),
and elaborate, in this order,
  * a copy of Lemmas/GenParseBase.lean in which only the line `import FancyModel.GeneratedParse` is redirected to the
    scratch module (compiled to ParseScratch/GenParseBase.olean), and
  * a copy of Proofs/C06d.lean in which only the line `import FancyModel.Lemmas.GenParseBase` is redirected to that copy
    (every other import of C06d is left alone)
(the mechanism of tools/rs2lean_compile_sensitivity.py, with one more link in the import chain).
Nothing under /repo or /verif/lean is written.  Prints a markdown table.

usage: rs2lean_parse_sensitivity.py [--work DIR] [--only SUBSTRING]      (default work dir /tmp/parsesens)
"""
import glob, os, re, shutil, subprocess, sys

VERIF = os.path.dirname(os.path.dirname(os.path.abspath(__file__)))
LEAN = os.path.join(VERIF, 'lean')
CRATE_SRC = '/repo/src'
SRC = os.path.join(CRATE_SRC, 'parse.rs')
TRANSLATOR = os.path.join(VERIF, 'tools', 'rs2lean_parse.py')
GENERATED = os.path.join(LEAN, 'FancyModel', 'GeneratedParse.lean')
BASE = os.path.join(LEAN, 'FancyModel', 'Lemmas', 'GenParseBase.lean')
PROOF = os.path.join(LEAN, 'FancyModel', 'Proofs', 'C06d.lean')
GEN_IMPORT = 'import FancyModel.GeneratedParse\n'
BASE_IMPORT = 'import FancyModel.Lemmas.GenParseBase\n'
SCRATCH_MODULE = 'ParseScratch'


def sh(cmd, **kw):
    return subprocess.run(cmd, stdout=subprocess.PIPE, stderr=subprocess.STDOUT, text=True, **kw)


def once(text, old, new, what):
    if text.count(old) != 1:
        sys.exit('mutation %s: the text to replace occurs %d times' % (what, text.count(old)))
    return text.replace(old, new)


def mutations(src):
    yield ('(a) parse_group: `if depth >= MAX_RECURSION` -> `if depth > MAX_RECURSION`',
           once(src, 'if depth >= MAX_RECURSION {', 'if depth > MAX_RECURSION {', 'a'))
    if 'lo > hi' in src:
        yield ('(b) parse_repeat: the `lo > hi` check dropped',
               once(src, 'lo > hi', 'false', 'b'))
    else:
        yield ('(b) parse_repeat: `if ix == self.re.len() || bytes[ix] != b\'}\'` -> `if ix == self.re.len()` (close-brace test dropped)',
               once(src, "if ix == self.re.len() || bytes[ix] != b'}' {", 'if ix == self.re.len() {', 'b'))
    yield ('(c) parse_flags: `b\'i\' => self.update_flag(FLAG_CASEI, neg)` -> `!neg`',
           once(src, "b'i' => self.update_flag(FLAG_CASEI, neg),", "b'i' => self.update_flag(FLAG_CASEI, !neg),", 'c'))
    yield ('(d) parse_group, Oniguruma named group: `(None, skip + 1)` -> `(None, skip + 2)`',
           once(src, '(None, skip + 1)', '(None, skip + 2)', 'd'))
    e = '''    fn check_for_close_paren(&self, ix: usize) -> Result<usize> {
        let ix = self.optional_whitespace(ix)?;
'''
    yield ('(e) check_for_close_paren: `let ix = self.optional_whitespace(ix)?;` removed',
           once(src, e, '    fn check_for_close_paren(&self, ix: usize) -> Result<usize> {\n', 'e'))
    yield ('(f) parse_named_backref: `self.curr_group.checked_add_signed(group + 1)` -> `checked_add_signed(group)`',
           once(src, 'self.curr_group.checked_add_signed(group + 1)', 'self.curr_group.checked_add_signed(group)', 'f'))
    yield ('(g) parse_hex: `endhex < starthex + 8` -> `endhex < starthex + 6`',
           once(src, 'endhex < starthex + 8', 'endhex < starthex + 6', 'g'))
    h = '''pub(crate) fn make_literal(s: &str) -> Expr {
    Expr::Literal {
        val: String::from(s),
        casei: false,
'''
    yield ('(h) make_literal: `casei: false` -> `casei: true`',
           once(src, h, h.replace('casei: false,', 'casei: true,'), 'h'))
    i = '''        let inner_condition = match condition {
            Expr::Backref(group) if is_group_test => Expr::BackrefExistsCondition(group),
'''
    yield ('(i) parse_conditional: the F21 repair reverted (`Expr::Backref(group) if is_group_test =>` -> `Expr::Backref(group) =>`)',
           once(src, i, i.replace(' if is_group_test', ''), 'i'))
    yield ('(j) optional_whitespace, inside `(?# … )`: `b\'\\\\\' => ix += 2` -> `ix += 1`',
           once(src, "b'\\\\' => ix += 2,", "b'\\\\' => ix += 1,", 'j'))
    yield ('(k) parse_escape: `} else if b == b\'z\' && !in_class {` -> `} else if b == b\'z\' {`',
           once(src, "} else if b == b'z' && !in_class {", "} else if b == b'z' {", 'k'))
    yield ('(l) parse_piece: `b\'*\' => (0, usize::MAX)` -> `(1, usize::MAX)`',
           once(src, "b'*' => (0, usize::MAX),", "b'*' => (1, usize::MAX),", 'l'))
    yield ('(m) parse_branch: `if child != Expr::Empty {` -> `if true {`',
           once(src, 'if child != Expr::Empty {', 'if true {', 'm'))
    yield ('(n) is_hex_digit: `(b | 32) <= b\'f\'` -> `(b | 32) <= b\'g\'`',
           once(src, "(b | 32) <= b'f'", "(b | 32) <= b'g'", 'n'))
    yield ('(o) parse_re: `self.last_re_had_alt = true;` removed',
           once(src, '            self.last_re_had_alt = true;\n', '', 'o'))
    p = '''        let (ix, child) = self.parse_branch(ix, depth)?;
        let mut ix = self.optional_whitespace(ix)?;
        if self.re[ix..].starts_with('|') {
            let mut children = vec![child];
'''
    yield ('(p, control) parse_re: comments and blank lines added (same meaning)',
           once(src, p, '''        // the first branch

        let (ix, child) = /* one branch */ self.parse_branch(ix, depth)?;
        let mut ix = self.optional_whitespace(ix)?; // past the blanks

        if self.re[ix..].starts_with('|') {
            // an alternation
            let mut children = vec![child];
''', 'p'))
    q = '''    fn parse_atom(&mut self, ix: usize, depth: usize) -> Result<(usize, Expr)> {
        let ix = self.optional_whitespace(ix)?;
'''
    yield ('(q, control) parse_atom: an unused `let unused = ix + 1;` added as the first statement (same meaning)',
           once(src, q, q.replace('        let ix = ', '        let unused = ix + 1;\n        let ix = '), 'q'))
    r = '''                self.numeric_backrefs = true;
                self.backrefs.insert(group);
'''
    yield ('(r, control) parse_numbered_backref: `self.numeric_backrefs = true;` / `self.backrefs.insert(group);` swapped (same meaning)',
           once(src, r, '''                self.backrefs.insert(group);
                self.numeric_backrefs = true;
''', 'r'))
    yield ('(s, control) optional_whitespace: the blank arm written with `continue` (`=> { ix += 1; continue; }`, same meaning)',
           once(src, "b' ' | b'\\r' | b'\\n' | b'\\t' if self.flag(FLAG_IGNORE_SPACE) => ix += 1,",
                "b' ' | b'\\r' | b'\\n' | b'\\t' if self.flag(FLAG_IGNORE_SPACE) => { ix += 1; continue; }", 's'))
    yield ('(t, control) is_digit written as `b.is_ascii_digit()` (same meaning)',
           once(src, "    b'0' <= b && b <= b'9'\n", "    b.is_ascii_digit()\n", 't'))
    yield ('(u) parse_piece: `ix = next - 1;` -> `ix = next.saturating_sub(1);` (no panic any more)',
           once(src, 'ix = next - 1;', 'ix = next.saturating_sub(1);', 'u'))
    yield ('(v) parse_group: `depth >= MAX_RECURSION` -> `depth as u8 as usize >= MAX_RECURSION` (truncating cast)',
           once(src, 'if depth >= MAX_RECURSION {', 'if depth as u8 as usize >= MAX_RECURSION {', 'v'))


def locate(path, line):
    """the theorem of a Lean file (Proofs/C06d.lean or Lemmas/GenParseBase.lean) that contains a line"""
    src = open(path).read().split('\n')
    for k in range(min(line, len(src)) - 1, -1, -1):
        m = re.match(r'^(?:@\[[^\]]*\]\s*)?(?:private |protected )?(?:theorem|lemma|def|example|instance)\s*(\S*)', src[k])
        if m:
            return '`%s`' % (m.group(1) or 'example')
    return '?'


def cases_of(work):
    """[(name, directory holding the scratch copy of src/ or None if the patch does not apply)]"""
    src = open(SRC).read()
    out = []

    def fresh(tag):
        d = os.path.join(work, tag)
        shutil.rmtree(d, ignore_errors=True)
        os.makedirs(d)
        shutil.copytree(CRATE_SRC, os.path.join(d, 'src'))
        return d
    out.append(('unmutated /repo/src/parse.rs', fresh('c00')))
    for i, (name, text) in enumerate(mutations(src)):
        d = fresh('c%02d' % (i + 1))
        open(os.path.join(d, 'src', 'parse.rs'), 'w').write(text)
        out.append((name, d))
    n = len(out)
    for p in sorted(glob.glob(os.path.join(VERIF, 'seeded', '*', '*', 'patch.diff'))):
        if 'src/parse.rs' not in open(p).read():
            continue
        name = 'seeded/' + os.path.relpath(os.path.dirname(p), os.path.join(VERIF, 'seeded'))
        d = fresh('c%02d' % n)
        n += 1
        r = sh(['patch', '-p1', '-s', '-f', '-i', p], cwd=d)
        out.append((name, d if r.returncode == 0 else None))
    return out


def failing(r, scratch, original):
    """(number of errors, description) of a failed elaboration of `scratch`, a redirected copy of `original`"""
    errs = [l for l in r.stdout.split('\n') if ': error' in l]
    if not errs:
        return 0, 'lean exit %d: %s' % (r.returncode, r.stdout.strip().split('\n')[-1][:200].replace(scratch, os.path.basename(original)))
    where = sorted({l.split(':')[1] for l in errs if l.startswith(scratch + ':') and l.split(':')[1].isdigit()}, key=int)
    thms = []
    for w in where:
        t = locate(original, int(w))          # the copy differs from the original in one import line only: same lines
        if t not in thms:
            thms.append(t)
    if not thms:                              # an error that is not at a line of the file (a bad import, say)
        return len(errs), '%d error(s): %s' % (len(errs), errs[0][:200].replace(scratch, os.path.basename(original)))
    return len(errs), '%d error(s): %s' % (len(errs), ', '.join(thms[:3]) + (' …' if len(thms) > 3 else ''))


def redirected(path, imp, new, what):
    """the text of a Lean file with one import line redirected, or None if the file does not exist"""
    if not os.path.exists(path):
        return None
    text = open(path).read()
    if text.count(imp) != 1:
        sys.exit('%s does not contain the line `%s` exactly once' % (what, imp.strip()))
    return text.replace(imp, new)


def main():
    work, only = '/tmp/parsesens', None
    if '--work' in sys.argv:
        work = sys.argv[sys.argv.index('--work') + 1]
    if '--only' in sys.argv:
        only = sys.argv[sys.argv.index('--only') + 1]
    shutil.rmtree(work, ignore_errors=True)
    os.makedirs(work)
    have_translator = os.path.exists(TRANSLATOR)
    lean_path = sh(['lake', 'env', 'printenv', 'LEAN_PATH'], cwd=LEAN).stdout.strip().split('\n')[-1]
    lean_bin = sh(['lake', 'env', 'which', 'lean'], cwd=LEAN).stdout.strip().split('\n')[-1]
    btext = redirected(BASE, GEN_IMPORT, 'import %s.GeneratedParse\n' % SCRATCH_MODULE, 'Lemmas/GenParseBase.lean')
    ptext = redirected(PROOF, BASE_IMPORT, 'import %s.GenParseBase\n' % SCRATCH_MODULE, 'Proofs/C06d.lean')
    checked_in = open(GENERATED).read() if os.path.exists(GENERATED) else None
    base_gen = None
    rows = []
    for i, (name, d) in enumerate(cases_of(work)):
        if only and i and only not in name:
            continue
        if d is None:
            rows.append((name, 'patch does not apply', '-', ''))
            continue
        if not have_translator:
            rows.append((name, 'ERROR: no translator', '-', '%s does not exist' % TRANSLATOR))
            continue
        rs = os.path.join(d, 'src', 'parse.rs')
        lib = os.path.join(d, 'lib', SCRATCH_MODULE)
        root = os.path.join(d, 'root')
        os.makedirs(lib)
        os.makedirs(os.path.join(root, SCRATCH_MODULE))
        gen = os.path.join(root, SCRATCH_MODULE, 'GeneratedParse.lean')
        r = sh([sys.executable, TRANSLATOR, rs, '-o', gen])
        if r.returncode != 0 or not os.path.exists(gen):
            lines = r.stdout.strip().split('\n')
            msgs = [l for l in lines if 'NOT TRANSLATED' in l]
            verdict = 'REJECTED (exit %d)' % r.returncode if msgs and r.returncode == 2 else 'ERROR (exit %d)' % r.returncode
            msg = (msgs or lines)[-1][:300] or 'the translator wrote no GeneratedParse.lean'
            rows.append((name, verdict, '-', msg.replace(rs, 'parse.rs').replace(d + '/src/', '')))
            continue
        g = open(gen).read()
        if base_gen is None:
            base_gen = g
        if i == 0:
            acc = 'accepted' + ('' if checked_in is None else
                                ', = lean/FancyModel/GeneratedParse.lean' if g == checked_in else
                                ', DIFFERS from lean/FancyModel/GeneratedParse.lean')
        else:
            same = g == (checked_in if checked_in is not None else base_gen)
            acc = 'accepted' + (', generated Lean identical' if same else '')
        env = dict(os.environ, LEAN_PATH=os.path.join(d, 'lib') + ':' + lean_path)
        r = sh([lean_bin, '--root=' + root, '-o', os.path.join(lib, 'GeneratedParse.olean'), gen], env=env, cwd=root)
        if r.returncode != 0:
            first = [l for l in r.stdout.strip().split('\n') if ': error' in l] or r.stdout.strip().split('\n')[:1]
            rows.append((name, acc, 'generated file does not compile', first[0][:300].replace(gen, 'GeneratedParse.lean')))
            continue
        if btext is None:
            rows.append((name, acc, 'generated file compiles; Lemmas/GenParseBase.lean does not exist yet', ''))
            continue
        base = os.path.join(root, SCRATCH_MODULE, 'GenParseBase.lean')
        open(base, 'w').write(btext)
        r = sh([lean_bin, '--root=' + root, '-o', os.path.join(lib, 'GenParseBase.olean'), base], env=env, cwd=root)
        if r.returncode != 0:
            rows.append((name, acc, 'proof FAILS', 'Lemmas/GenParseBase.lean: ' + failing(r, base, BASE)[1]))
            continue
        if ptext is None:
            rows.append((name, acc, 'generated file and Lemmas/GenParseBase.lean compile; Proofs/C06d.lean does not exist yet', ''))
            continue
        proof = os.path.join(root, SCRATCH_MODULE, 'C06d.lean')
        open(proof, 'w').write(ptext)
        r = sh([lean_bin, '--root=' + root, proof], env=env, cwd=root)
        nerr, detail = failing(r, proof, PROOF)
        if r.returncode == 0 and nerr == 0:
            rows.append((name, acc, 'proof HOLDS', ''))
        else:
            rows.append((name, acc, 'proof FAILS', detail))
    print('| source | translator | Proofs/C06d.lean | detail |')
    print('|---|---|---|---|')
    for r in rows:
        print('| %s | %s | %s | %s |' % tuple(c.replace('|', '\\|') for c in r))
    return 0


if __name__ == '__main__':
    sys.exit(main())
