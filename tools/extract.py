#!/usr/bin/env python3
"""Regenerate lean/FancyModel/Generated.lean (and, through tools/rs2lean_analyze.py, GeneratedAnalyze.lean) from /repo's
*current* source text (DESIGN.md §4.4).
Tables and constants that theorems mention by name are re-read on every run; a shape the extractor
does not find is an error (reported as a broken tie), never silently skipped."""
import os, re, sys

REPO = '/repo'
OUT = os.path.join(os.path.dirname(os.path.dirname(os.path.abspath(__file__))), 'lean', 'FancyModel', 'Generated.lean')


def fail(msg):
    print('extract.py: ' + msg)
    sys.exit(1)


def strip_comments(s):
    s = re.sub(r'/\*.*?\*/', '', s, flags=re.S)
    return re.sub(r'//[^\n]*', '', s)


def fn_body(src, sig):
    i = src.find(sig)
    if i < 0:
        fail('cannot find `%s`' % sig)
    j = src.index('{', i)
    depth = 0
    for k in range(j, len(src)):
        if src[k] == '{':
            depth += 1
        elif src[k] == '}':
            depth -= 1
            if depth == 0:
                return src[j:k + 1]
    fail('unbalanced braces after `%s`' % sig)


def lean_char(c):
    if c == '\\':
        return "'\\\\'"
    if c == "'":
        return "'\\''"
    return "'" + c + "'"


def struct_fields(src, name, kind='struct'):
    m = re.search(r'\b%s\s+%s\s*(<[^>]*>)?\s*\{' % (kind, name), src)
    if not m:
        # tuple struct
        m2 = re.search(r'\bstruct\s+%s\s*(<[^>]*>)?\s*\(([^;]*)\);' % name, src)
        if m2:
            return [('0', re.sub(r'\s+', ' ', m2.group(2).strip()))]
        fail('cannot find %s %s' % (kind, name))
    body = fn_body(src[m.start():], m.group(0)[:-1].strip().split()[-1] if False else '{')
    body = strip_comments(body)[1:-1]
    body = re.sub(r'#\[[^\]]*\]', '', body)
    fields = []
    depth = 0
    cur = ''
    for ch in body:
        if ch in '{(<[':
            depth += 1
        elif ch in '})>]':
            depth -= 1
        if ch == ',' and depth == 0:
            fields.append(cur)
            cur = ''
        else:
            cur += ch
    if cur.strip():
        fields.append(cur)
    out = []
    for f in fields:
        f = re.sub(r'\s+', ' ', f.strip())
        if not f:
            continue
        f = re.sub(r'^pub(\([^)]*\))? ', '', f)
        if ':' in f and kind == 'struct':
            n, t = f.split(':', 1)
            out.append((n.strip(), t.strip()))
        else:
            out.append((f, ''))
    return out


def main():
    lib = open(os.path.join(REPO, 'src/lib.rs')).read()
    vm = open(os.path.join(REPO, 'src/vm.rs')).read()
    parse = open(os.path.join(REPO, 'src/parse.rs')).read()

    # is_special
    body = strip_comments(fn_body(lib, 'fn is_special('))
    m = re.search(r"match\s+c\s*\{(.*?)=>\s*true", body, re.S)
    if not m:
        fail('is_special: unexpected shape')
    chars = re.findall(r"'(\\.|[^'\\])'", m.group(1))
    special = [c[1] if c.startswith('\\') else c for c in chars]
    if not special:
        fail('is_special: no characters found')
    rest = body[m.end():]
    if not re.search(r"_\s*=>\s*false", rest):
        fail('is_special: default arm is not `false`')

    # push_quoted escapes with a backslash
    pq = strip_comments(fn_body(lib, 'fn push_quoted('))
    if not re.search(r"if\s+is_special\(c\)\s*\{\s*buf\.push\('\\\\'\);\s*\}\s*buf\.push\(c\);", pq):
        fail('push_quoted: unexpected shape')

    # codepoint_len thresholds
    cl = strip_comments(fn_body(lib, 'fn codepoint_len('))
    th = re.findall(r'b\s*<\s*(0x[0-9a-fA-F]+)\s*=>\s*(\d+)', cl)
    dflt = re.search(r'_\s*=>\s*(\d+)', cl)
    if len(th) != 3 or not dflt:
        fail('codepoint_len: unexpected shape')

    def const(src, name):
        m = re.search(r'const\s+%s\s*:\s*usize\s*=\s*([0-9_]+)\s*;' % name, src)
        if not m:
            fail('cannot find const ' + name)
        return int(m.group(1).replace('_', ''))

    max_recursion = const(lib, 'MAX_RECURSION')
    max_stack = const(vm, 'MAX_STACK')
    m = re.search(r'backtrack_limit\s*:\s*([0-9_]+)\s*,', fn_body(lib, 'impl Default for RegexOptions'))
    if not m:
        fail('default backtrack_limit not found')
    backtrack_limit = int(m.group(1).replace('_', ''))

    # flag letters accepted by parse_flags
    pf = strip_comments(fn_body(parse, 'fn parse_flags('))
    flags = re.findall(r"b'([a-zA-Z])'\s*=>\s*(?:self\.update_flag|\{)", pf)
    if not flags:
        fail('parse_flags: no flag letters found')

    # field lists
    regex_fields = struct_fields(lib, 'Regex')
    prog_fields = struct_fields(vm, 'Prog')
    opt_fields = struct_fields(lib, 'RegexOptions')
    impl_variants = struct_fields(lib, 'RegexImpl', kind='enum')
    state_fields = struct_fields(vm, 'State')
    insn_delegate = re.search(r'Delegate\s*\{(.*?)\}', strip_comments(vm), re.S)
    if not insn_delegate:
        fail('Insn::Delegate not found')

    def lean_str(s):
        return '"' + s.replace('\\', '\\\\').replace('"', '\\"') + '"'

    def field_list(fs):
        return '[' + ', '.join('(%s, %s)' % (lean_str(n), lean_str(t)) for n, t in fs) + ']'

    out = []
    out.append('/-! GENERATED by tools/extract.py from /repo/src on every run - do not edit. -/')
    out.append('namespace Fancy.Generated')
    out.append('')
    out.append('/-- the characters for which `is_special` (src/lib.rs) returns true -/')
    out.append('def specialChars : List Char := [' + ', '.join(lean_char(c) for c in special) + ']')
    out.append('def isSpecial (c : Char) : Bool := specialChars.contains c')
    out.append('')
    out.append('/-- `codepoint_len`: (exclusive upper bound of the first byte, length), then the default -/')
    out.append('def codepointLenTable : List (Nat × Nat) := [' + ', '.join('(%d, %s)' % (int(a, 16), b) for a, b in th) + ']')
    out.append('def codepointLenDefault : Nat := ' + dflt.group(1))
    out.append('def maxRecursion : Nat := %d' % max_recursion)
    out.append('def maxStack : Nat := %d' % max_stack)
    out.append('def defaultBacktrackLimit : Nat := %d' % backtrack_limit)
    out.append('def flagLetters : List Char := [' + ', '.join(lean_char(c) for c in flags) + ']')
    out.append('')
    out.append('/-- (field name, type) lists, as written in the source -/')
    out.append('def regexFields : List (String × String) := ' + field_list(regex_fields))
    out.append('def regexImplVariants : List (String × String) := ' + field_list(impl_variants))
    out.append('def progFields : List (String × String) := ' + field_list(prog_fields))
    out.append('def regexOptionsFields : List (String × String) := ' + field_list(opt_fields))
    out.append('def vmStateFields : List (String × String) := ' + field_list(state_fields))
    def chars(x):
        return '[' + ', '.join(lean_char(ch) for ch in x) + ']'

    def field_list_c(fs):
        return '[' + ', '.join('(%s, %s)' % (chars(n), chars(t)) for n, t in fs) + ']'

    out.append('/-- the same lists as lists of characters (kernel-reducible, for `decide`) -/')
    out.append('def regexFieldsC : List (List Char × List Char) := ' + field_list_c(regex_fields))
    out.append('def regexImplVariantsC : List (List Char × List Char) := ' + field_list_c(impl_variants))
    out.append('def progFieldsC : List (List Char × List Char) := ' + field_list_c(prog_fields))
    out.append('def regexOptionsFieldsC : List (List Char × List Char) := ' + field_list_c(opt_fields))
    out.append('def insnDelegateFieldsC : List Char := ' + chars(re.sub(r'\s+', ' ', re.sub(r'#\[[^\]]*\]', '', insn_delegate.group(1)).strip())))
    out.append('def insnDelegateFields : String := ' + lean_str(re.sub(r'\s+', ' ', re.sub(r'#\[[^\]]*\]', '', insn_delegate.group(1)).strip())))
    out.append('')
    out.append('end Fancy.Generated')
    text = '\n'.join(out) + '\n'
    old = open(OUT).read() if os.path.exists(OUT) else None
    if old != text:
        open(OUT, 'w').write(text)
    print('extract.py: ok (%d special characters)' % len(special))
    # the analyzer, translated statement by statement: src/analyze.rs -> GeneratedAnalyze.lean (proved equal to the
    # hand-written model in Proofs/C13c.lean). A construct outside the translator's subset is a broken tie.
    import subprocess
    here = os.path.dirname(os.path.abspath(__file__))
    gen = os.path.join(os.path.dirname(here), 'lean', 'FancyModel', 'GeneratedAnalyze.lean')
    r = subprocess.run([sys.executable, os.path.join(here, 'rs2lean_analyze.py'), os.path.join(REPO, 'src', 'analyze.rs')],
                       stdout=subprocess.PIPE, stderr=subprocess.STDOUT, text=True)
    print(r.stdout.strip())
    if r.returncode != 0:
        # The source uses a construct outside the translator's subset. That concerns the one proof that reads the
        # translation (Proofs/C13c.lean), not every property: leave a file that does not compile and says why, so that
        # C13's proof obligation is reported broken (and its search for a failing input goes on), and carry on.
        msg = r.stdout.strip().replace('-/', '- /')[-1500:]
        stub = ('/- tools/rs2lean_analyze.py could not translate src/analyze.rs (exit %d):\n%s\n-/\n'
                'namespace Fancy.GenAnalyze\n'
                'theorem translator_could_not_read_analyze_rs : False := by\n'
                '  exact translation_failed   -- deliberately unresolved: see the comment above\n'
                'end Fancy.GenAnalyze\n') % (r.returncode, msg)
        old = open(gen).read() if os.path.exists(gen) else ''
        if old != stub:
            open(gen, 'w').write(stub)
        print('extract.py: src/analyze.rs is not translated; GeneratedAnalyze.lean now holds a failing stub (Proofs/C13c will not build)')
    # the interpreter loop likewise: src/vm.rs `run` -> GeneratedVM.lean (Proofs/C05f.lean); a failure leaves a failing stub there
    print(subprocess.run([sys.executable, os.path.join(here, 'rs2lean_vm.py'), '--stub-on-failure', os.path.join(REPO, 'src', 'vm.rs')], stdout=subprocess.PIPE, stderr=subprocess.STDOUT, text=True).stdout.strip())
    print(subprocess.run([sys.executable, os.path.join(here, 'rs2lean_state.py'), '--stub-on-failure', os.path.join(REPO, 'src', 'vm.rs')], stdout=subprocess.PIPE, stderr=subprocess.STDOUT, text=True).stdout.strip())  # `impl State` -> GeneratedState.lean (Proofs/C20c.lean)
    print(subprocess.run([sys.executable, os.path.join(here, 'rs2lean_api.py'), '--stub-on-failure', os.path.join(REPO, 'src', 'lib.rs')], stdout=subprocess.PIPE, stderr=subprocess.STDOUT, text=True).stdout.strip())  # the API layer of lib.rs -> GeneratedApi.lean (Proofs/C08d.lean)
    print(subprocess.run([sys.executable, os.path.join(here, 'rs2lean_tostr.py'), '--stub-on-failure', os.path.join(REPO, 'src', 'lib.rs')], stdout=subprocess.PIPE, stderr=subprocess.STDOUT, text=True).stdout.strip())  # to_str / escape of lib.rs -> GeneratedToStr.lean (Proofs/C17c.lean)
    print(subprocess.run([sys.executable, os.path.join(here, 'rs2lean_expand.py'), '--stub-on-failure', os.path.join(REPO, 'src', 'expand.rs')], stdout=subprocess.PIPE, stderr=subprocess.STDOUT, text=True).stdout.strip())  # Expander of expand.rs -> GeneratedExpand.lean (Proofs/C12c.lean)
    print(subprocess.run([sys.executable, os.path.join(here, 'rs2lean_lib.py'), '--stub-on-failure', os.path.join(REPO, 'src', 'lib.rs')], stdout=subprocess.PIPE, stderr=subprocess.STDOUT, text=True).stdout.strip())  # glue of lib.rs / replacer.rs -> GeneratedLib.lean (Proofs/C16c.lean, C09b.lean)
    print(subprocess.run([sys.executable, os.path.join(here, 'rs2lean_compile.py'), '--stub-on-failure', os.path.join(REPO, 'src', 'compile.rs')], stdout=subprocess.PIPE, stderr=subprocess.STDOUT, text=True).stdout.strip())  # src/compile.rs -> GeneratedCompile.lean (Proofs/C03d.lean)
    print(subprocess.run([sys.executable, os.path.join(here, 'rs2lean_parse.py'), '--stub-on-failure', os.path.join(REPO, 'src', 'parse.rs')], stdout=subprocess.PIPE, stderr=subprocess.STDOUT, text=True).stdout.strip())  # src/parse.rs -> GeneratedParse.lean (Proofs/C06d.lean)

if __name__ == '__main__':
    main()
