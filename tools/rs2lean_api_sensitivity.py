#!/usr/bin/env python3
"""Sensitivity of the API-layer tie (tools/rs2lean_api.py + lean/FancyModel/Proofs/C08d.lean).

For the unmutated /repo/src/lib.rs, hand-made mutations, meaning-preserving controls and every seeded/{C08,C09,C10,C11}/*/patch.diff:
translate a scratch COPY of the sources into a scratch GeneratedApi.lean, compile it to a scratch .olean (module
ApiScratch.GeneratedApi), and elaborate a copy of Proofs/C08d.lean in which only the import line
`import FancyModel.GeneratedApi` is redirected to it. Nothing under /repo or /verif/lean is written. Prints a markdown table.

usage: rs2lean_api_sensitivity.py [--work DIR] [--only SUBSTRING-OF-THE-CASE-NAME]      (default /tmp/apisens)
"""
import glob, os, re, shutil, subprocess, sys

VERIF = os.path.dirname(os.path.dirname(os.path.abspath(__file__)))
LEAN = os.path.join(VERIF, 'lean')
SRC = '/repo/src/lib.rs'
TRANSLATOR = os.path.join(VERIF, 'tools', 'rs2lean_api.py')
PROOF = os.path.join(LEAN, 'FancyModel', 'Proofs', 'C08d.lean')


def sh(cmd, **kw):
    return subprocess.run(cmd, stdout=subprocess.PIPE, stderr=subprocess.STDOUT, text=True, **kw)


def once(text, old, new, what):
    if text.count(old) != 1:
        sys.exit('mutation %s: the text to replace occurs %d times' % (what, text.count(old)))
    return text.replace(old, new)


def first(text, old, new, what):
    if text.count(old) < 1:
        sys.exit('mutation %s: the text to replace does not occur' % what)
    return text.replace(old, new, 1)


def mutations(src):
    yield ('(a) Matches::next: `mat.start == mat.end` -> `mat.end == self.last_end`',
           once(src, 'if mat.start == mat.end {\n            // This is an empty match.', 'if mat.end == self.last_end {\n            // This is an empty match.', 'a'))
    yield ('(b) Matches::next: the `Some(mat.end) == self.last_match` test dropped',
           once(src, '            if Some(mat.end) == self.last_match {\n                return self.next();\n            }\n', '', 'b'))
    yield ('(c) codepoint_len (used by next_utf8): threshold `0xe0` -> `0xf0`', once(src, 'b if b < 0xe0 => 2,', 'b if b < 0xf0 => 2,', 'c'))
    yield ('(d) Split::next: `self.next_start = m.end()` -> `m.start()`', once(src, 'self.next_start = m.end();', 'self.next_start = m.start();', 'd'))
    yield ('(e) SplitN::next: `self.limit -= 1;` moved after the test',
           once(src, '        self.limit -= 1;\n        if self.limit > 0 {\n            return self.splits.next();\n        }\n',
                '        if self.limit > 0 {\n            self.limit -= 1;\n            return self.splits.next();\n        }\n        self.limit -= 1;\n', 'e'))
    yield ('(f) try_replacen (fast path): `i >= limit` -> `i > limit`', first(src, 'if limit > 0 && i >= limit {', 'if limit > 0 && i > limit {', 'f'))
    yield ('(g) Matches::next, error arm: `self.text.len() + 1` -> `self.text.len()`',
           once(src, '                    self.last_end = self.text.len() + 1;', '                    self.last_end = self.text.len();', 'g'))
    yield ('(h) CaptureMatches::next: flag 0 is always passed',
           once(src, '            self.0.last_end,\n            option_flags,\n', '            self.0.last_end,\n            0,\n', 'h'))
    yield ('(i) find_iter: `last_end: 0` -> `last_end: 1`', once(src, '            last_end: 0,', '            last_end: 1,', 'i'))
    yield ('(j) Split::next: `self.next_start = len + 1` -> `len`', once(src, '                    self.next_start = len + 1;', '                    self.next_start = len;', 'j'))
    k1 = '            rep.replace_append(&cap, &mut new);\n            last_match = m.end();\n'
    yield ('(k) try_replacen (captures path): `last_match = m.end()` -> `m.start()`',
           once(src, k1, k1.replace('m.end()', 'm.start()'), 'k'))
    yield ('(l) Matches::next: the flag branches swapped (`OPTION_SKIPPED_EMPTY_MATCH` when NOT past the last match)',
           once(src, '                OPTION_SKIPPED_EMPTY_MATCH\n            } else {\n                0\n            }',
                '                0\n            } else {\n                OPTION_SKIPPED_EMPTY_MATCH\n            }', 'l'))
    yield ('(m) SplitN::next: the guard `self.limit == 0` -> `self.limit == 1`', once(src, '        if self.limit == 0 {', '        if self.limit == 1 {', 'm'))
    yield ('(n) try_replacen (captures path): the `?` after the limit test',
           once(src, '            let cap = cap?;\n\n            if limit > 0 && i >= limit {\n                break;\n            }\n',
                '            if limit > 0 && i >= limit {\n                break;\n            }\n            let cap = cap?;\n', 'n'))
    yield ('(o) next_utf8: `None => return i + 1` -> `return i`', once(src, '        None => return i + 1,', '        None => return i,', 'o'))
    yield ('(control) try_replacen: the independent `let mut new = …;` / `let mut last_match = 0;` swapped (same meaning)',
           first(src, '            let mut new = String::with_capacity(text.len());\n            let mut last_match = 0;\n',
                 '            let mut last_match = 0;\n            let mut new = String::with_capacity(text.len());\n', 'p'))
    yield ('(control) comments and blank lines added (same meaning)',
           once(src, '        self.limit -= 1;\n', '        // one fewer\n\n        self.limit /* the budget */ -= 1;\n', 'q'))
    yield ('(control) CaptureMatches::next: the `match … { Some(x) if c => A, _ => 0 }` written as Matches::next writes it (same meaning)',
           once(src, '        let option_flags = match self.0.last_match {\n            Some(last_match) if self.0.last_end > last_match => OPTION_SKIPPED_EMPTY_MATCH,\n            _ => 0,\n        };',
                '        let option_flags = if let Some(last_match) = self.0.last_match {\n            if self.0.last_end > last_match {\n                OPTION_SKIPPED_EMPTY_MATCH\n            } else {\n                0\n            }\n        } else {\n            0\n        };', 'r'))
    # ---- the widened subset
    sn = '''            let start = self.splits.next_start;
            self.splits.next_start = len + 1;
            return Some(Ok(&self.splits.target[start..len]));'''
    yield ('(control) SplitN::next: the local `start` renamed to `fuel` (a name the generated code uses itself: renamed apart; same meaning)',
           once(src, sn, sn.replace('start', 'fuel').replace('next_fuel', 'next_start'), 'w1'))
    yield ('(control) SplitN::next: `let len: usize = self.splits.target.len();` (type annotation, same meaning)',
           once(src, '        let len = self.splits.target.len();\n        if self.splits.next_start > len {', '        let len: usize = self.splits.target.len();\n        if self.splits.next_start > len {', 'w2'))
    yield ('(control) SplitN::next: `&self.splits.target[start..len]` -> `&self.splits.target[start..]` (same meaning: `len` is the length)',
           once(src, 'return Some(Ok(&self.splits.target[start..len]));', 'return Some(Ok(&self.splits.target[start..]));', 'w3'))
    yield ('(control) try_replacen (fast path): `String::with_capacity(text.len())` -> `String::with_capacity(text.len() + 0)` (same meaning; '
           'neither can overflow: a `len()` is at most isize::MAX)',
           first(src, '            let mut new = String::with_capacity(text.len());\n', '            let mut new = String::with_capacity(text.len() + 0);\n', 'w9'))
    yield ('(u) try_replacen (captures path): `String::with_capacity(text.len() * limit)`',
           once(src, '        let mut new = String::with_capacity(text.len());\n        let mut last_match = 0;\n        for (i, cap) in it {',
                '        let mut new = String::with_capacity(text.len() * limit);\n        let mut last_match = 0;\n        for (i, cap) in it {', 'w10'))
    yield ('(p) SplitN::next: the rest starts at `self.splits.matches.last_end.min(len)`',
           once(src, '            let start = self.splits.next_start;\n', '            let start = self.splits.matches.last_end.min(len);\n', 'w4'))
    yield ('(q) try_replacen: an early `if text.is_empty() { return Ok(Cow::Borrowed(text)); }`',
           once(src, '        // If we know that the replacement doesn\'t have any capture expansions,', '        if text.is_empty() {\n            return Ok(Cow::Borrowed(text));\n        }\n        // If we know that the replacement doesn\'t have any capture expansions,', 'w5'))
    yield ('(r) try_replacen (fast path): the items are taken with `while let Some((i, Ok(m))) = it.next()` (an error ends the loop silently)',
           first(src, '            for (i, m) in it {\n                let m = m?;\n\n', '            while let Some((i, Ok(m))) = it.next() {\n', 'w6'))
    yield ('(s) try_replacen (fast path): the emptiness test is `!matches!(it.peek(), Some((_, Ok(_))))` (an error as first item: the text is handed back)',
           first(src, '            if it.peek().is_none() {', '            if !matches!(it.peek(), Some((_, Ok(_)))) {', 'w7'))
    yield ('(t) SplitN::next: the length in characters, `self.splits.target.chars().count()`',
           once(src, '        let len = self.splits.target.len();\n        if self.splits.next_start > len {', '        let len = self.splits.target.chars().count();\n        if self.splits.next_start > len {', 'w8'))
    yield ('(rejected?) Split::next: the items collected with `.map(..)`',
           once(src, '            Some(Err(e)) => Some(Err(e)),\n        }\n    }\n}\n\nimpl<\'r, \'h> core::iter::FusedIterator for Split',
                '            Some(Err(e)) => Some(Err(e)).map(|x| x),\n        }\n    }\n}\n\nimpl<\'r, \'h> core::iter::FusedIterator for Split', 's'))

# seeded changes INSIDE a translated function that leave the generated Lean unchanged: why (none at present)
IDENTICAL_WHY = {}


def locate(line):
    """the theorem of Proofs/C05f.lean that contains a line"""
    src = open(PROOF).read().split('\n')
    for k in range(min(line, len(src)) - 1, -1, -1):
        m = re.match(r"^(?:private )?(?:theorem|def|example)\s*([A-Za-z_][A-Za-z0-9_.']*)?", src[k])
        if m:
            return '`%s`' % (m.group(1) or 'example')
    return '?'


def main():
    work = '/tmp/apisens'
    if '--work' in sys.argv:
        work = sys.argv[sys.argv.index('--work') + 1]
    shutil.rmtree(work, ignore_errors=True)
    os.makedirs(work)
    lean_path = sh(['lake', 'env', 'printenv', 'LEAN_PATH'], cwd=LEAN).stdout.strip().split('\n')[-1]
    lean_bin = sh(['lake', 'env', 'which', 'lean'], cwd=LEAN).stdout.strip().split('\n')[-1]
    src = open(SRC).read()
    cases = [('unmutated /repo/src/lib.rs', {'lib.rs': src})] + [(n, {'lib.rs': t}) for n, t in mutations(src)]
    for p in sorted(glob.glob(os.path.join(VERIF, 'seeded', 'C0[89]', '*', 'patch.diff')) + glob.glob(os.path.join(VERIF, 'seeded', 'C1[01]', '*', 'patch.diff'))):
        d = os.path.join(work, 'patch')
        shutil.rmtree(d, ignore_errors=True)
        shutil.copytree('/repo/src', os.path.join(d, 'src'))
        r = sh(['patch', '-p1', '-s', '-f', '-i', p], cwd=d)
        name = 'seeded/' + os.path.relpath(os.path.dirname(p), os.path.join(VERIF, 'seeded'))
        if r.returncode != 0:
            cases.append((name, None))
            continue
        cases.append((name, {'lib.rs': open(os.path.join(d, 'src', 'lib.rs')).read(), 'vm.rs': open(os.path.join(d, 'src', 'vm.rs')).read()}))
    if '--only' in sys.argv:
        cases = cases[:1] + [x for x in cases[1:] if sys.argv[sys.argv.index('--only') + 1] in x[0]]
    base_gen = None
    rows = []
    for i, (name, files) in enumerate(cases):
        d = os.path.join(work, 'c%02d' % i)
        os.makedirs(os.path.join(d, 'lib', 'ApiScratch'))
        if files is None:
            rows.append((name, 'patch does not apply', '-', ''))
            continue
        os.makedirs(os.path.join(d, 'src'))
        for fn in ('lib.rs', 'vm.rs'):
            open(os.path.join(d, 'src', fn), 'w').write(files.get(fn) or open('/repo/src/' + fn).read())
        rs_ = os.path.join(d, 'src', 'lib.rs')
        os.makedirs(os.path.join(d, 'root', 'ApiScratch'))
        gen = os.path.join(d, 'root', 'ApiScratch', 'GeneratedApi.lean')
        r = sh([sys.executable, TRANSLATOR, rs_, '-o', gen])
        if r.returncode != 0:
            rows.append((name, 'REJECTED (exit %d)' % r.returncode, '-', r.stdout.strip().split('\n')[-1].replace(rs_, 'lib.rs')))
            continue
        g = open(gen).read()
        if base_gen is None:
            base_gen = g
        same = (re.sub(r'line \d+', 'line N', g) == re.sub(r'line \d+', 'line N', base_gen))      # up to the line numbers in the doc comments
        if same and i:
            rows.append((name, 'accepted, generated Lean identical (up to line numbers)', 'proof HOLDS', IDENTICAL_WHY.get(name, 'the change is outside the translated functions') if name.startswith('seeded') else ''))
            continue
        env = dict(os.environ, LEAN_PATH=os.path.join(d, 'lib') + ':' + lean_path)
        r = sh([lean_bin, '--root=' + os.path.join(d, 'root'), '-o', os.path.join(d, 'lib', 'ApiScratch', 'GeneratedApi.olean'), gen],
               env=env, cwd=os.path.join(d, 'root'))
        if r.returncode != 0:
            rows.append((name, 'accepted', 'generated file does not compile', r.stdout.strip().split('\n')[0]))
            continue
        proof = os.path.join(d, 'root', 'ApiScratch', 'C08d.lean')
        ptext = open(PROOF).read()
        if ptext.count('import FancyModel.GeneratedApi\n') != 1:
            sys.exit('C08d.lean does not import FancyModel.GeneratedApi exactly once')
        open(proof, 'w').write(ptext.replace('import FancyModel.GeneratedApi\n', 'import ApiScratch.GeneratedApi\n'))
        r = sh([lean_bin, '--root=' + os.path.join(d, 'root'), proof], env=env, cwd=os.path.join(d, 'root'))
        errs = [l for l in r.stdout.split('\n') if ': error' in l]
        if r.returncode == 0 and not errs:
            rows.append((name, 'accepted', 'proof HOLDS', ''))
        else:
            where = sorted({l.split(':')[1] for l in errs if l.count(':') > 2 and l.split(':')[1].isdigit()}, key=int)
            thms = []
            for w in where:
                t = locate(int(w))
                if t not in thms:
                    thms.append(t)
            rows.append((name, 'accepted', 'proof FAILS', '%d error(s): %s' % (len(errs), ', '.join(thms[:3]) + (' …' if len(thms) > 3 else ''))))
    print('| source | translator | Proofs/C08d.lean | detail |')
    print('|---|---|---|---|')
    for r in rows:
        print('| %s | %s | %s | %s |' % r)
    return 0


if __name__ == '__main__':
    sys.exit(main())
