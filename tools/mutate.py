#!/usr/bin/env python3
"""Mutant generator + survivor filter for the crate at /repo (never touches /repo's working tree).

usage:
  (every command: --rev <commit> takes the sources from that commit of /repo - and makes the scratch worktrees at it -
   instead of the working tree / HEAD; the recorded campaign was run on c1399e4)
  mutate.py list   [--files vm,compile,...] [--limit N] [--first N]          print the mutants (one line each)
  mutate.py diff   <id> [--files ...]                                       print one mutant's unified diff
  mutate.py filter [--files ...] [--limit N] [--first N] [--workers K] [--wt-base /tmp/mut]
                   [--test-timeout S] [--out /verif/work/mutants] [--keep-worktrees]
        apply every selected mutant in a scratch git worktree of /repo (wt-base/wt<k>), `cargo build --offline`
        (non-compiling mutants are discarded), `cargo test --workspace --no-fail-fast --offline` under a timeout
        (failing tests / timeouts = killed by the crate's own suite, discarded). Survivors are written to
        <out>/M<file>/<nnnn>/patch.diff + meta.json; the status of every mutant goes to <out>/results.json.

Mutation operators (line based, one textual change per mutant, applied only to code: string / char literals and
comments are masked out by a small Rust lexer; skipped: `#[cfg(test)]` items, `#[cfg(fancy_regex_verif)]` items,
attribute lines, `debug_assert*!` statements, verif_hooks.rs):
  rel      ` < `<->` <= `, ` > `<->` >= `, ` == `<->` != `        (binary operators as rustfmt spaces them)
  logic    ` && `<->` || `
  plus1    `+ 1` -> `+ 0`, `+ 2`    (also `+= 1`)
  minus1   `- 1` -> `- 0`           (also `-= 1`)
  bool     `true` <-> `false`
  neg      removal of a `!` (not `!=`, not a macro bang)
  lit01    numeric literal `0` <-> `1` (also with an integer suffix; not tuple fields, not floats)
Order: files as given (default vm compile analyze parse lib expand replacer), then line, column, operator.
The id of a mutant is M<file>/<nnnn> with nnnn its index in the *full* list of its file, so ids do not depend
on --limit. --limit N keeps N mutants spread evenly over the full list (every k-th), --first N the first N."""
import concurrent.futures, difflib, json, os, re, shutil, signal, subprocess, sys, threading, time

REPO = '/repo'
ALL_FILES = ['vm', 'compile', 'analyze', 'parse', 'lib', 'expand', 'replacer']


# ---------------------------------------------------------------------------------------------- lexer

def code_mask(src):
    """list of booleans, one per character: True = ordinary code (not comment / string / char literal)"""
    n = len(src)
    mask = [True] * n
    i = 0
    while i < n:
        c = src[i]
        if src.startswith('//', i):
            j = src.find('\n', i)
            j = n if j < 0 else j
            for k in range(i, j):
                mask[k] = False
            i = j
        elif src.startswith('/*', i):
            depth, j = 1, i + 2
            while j < n and depth:
                if src.startswith('/*', j):
                    depth += 1; j += 2
                elif src.startswith('*/', j):
                    depth -= 1; j += 2
                else:
                    j += 1
            for k in range(i, j):
                mask[k] = False
            i = j
        elif c == '"' or (c in 'rb' and re.match(r'b?r#*"|b"', src[i:i + 12]) and (i == 0 or not (src[i - 1].isalnum() or src[i - 1] == '_'))):
            m = re.match(r'(b?)(r?)(#*)"', src[i:i + 12])
            raw, hashes = m.group(2), m.group(3)
            j = i + m.end()
            if raw:
                end = src.find('"' + hashes, j)
                j = n if end < 0 else end + 1 + len(hashes)
            else:
                while j < n and src[j] != '"':
                    j += 2 if src[j] == '\\' else 1
                j += 1
            for k in range(i, min(j, n)):
                mask[k] = False
            i = j
        elif c == "'":
            # char literal or lifetime
            m = re.match(r"'(\\x[0-9a-fA-F]{2}|\\u\{[0-9a-fA-F_]+\}|\\.|[^\\'\n])'", src[i:i + 14])
            if m:
                for k in range(i, i + m.end()):
                    mask[k] = False
                i += m.end()
            else:
                i += 1
        else:
            i += 1
    return mask


def skipped_lines(lines, masked):
    """line indexes (0-based) that must not be mutated"""
    skip = set()
    n = len(lines)
    i = 0
    while i < n:
        code = masked[i].strip()
        if re.match(r'#!?\[', code):
            skip.add(i)
            if re.match(r'#\[cfg\((test|fancy_regex_verif)\)\]', code) or re.match(r'#\[cfg\(all\(.*\b(test|fancy_regex_verif)\b', code):
                # skip the attributed item: further attributes, then either one `...;` statement or a braced item
                j = i + 1
                while j < n and (re.match(r'#\[', masked[j].strip()) or not masked[j].strip()):
                    skip.add(j); j += 1
                depth, seen_brace = 0, False
                while j < n:
                    skip.add(j)
                    for ch in masked[j]:
                        if ch in '{([':
                            depth += 1
                            seen_brace = seen_brace or ch == '{'
                        elif ch in '})]':
                            depth -= 1
                    t = masked[j].rstrip()
                    if depth <= 0 and (seen_brace and t.endswith('}') or t.endswith(';') or t.endswith(',')):
                        break
                    j += 1
                i = j + 1
                continue
        elif 'debug_assert' in code:
            j, depth = i, 0
            while j < n:
                skip.add(j)
                depth += sum(masked[j].count(ch) for ch in '([{') - sum(masked[j].count(ch) for ch in ')]}')
                if depth <= 0 and masked[j].rstrip().endswith(';'):
                    break
                j += 1
            i = j + 1
            continue
        i += 1
    return skip


# ---------------------------------------------------------------------------------------------- operators

INT_SUFFIX = r'(?:_?(?:usize|isize|u8|u16|u32|u64|u128|i8|i16|i32|i64|i128))?'
OPERATORS = [
    # (operator name, regex on the masked line, list of replacement builders (match -> str))
    ('rel', re.compile(r'(?<= )(<=|>=|==|!=|<|>)(?= )'), None),
    ('logic', re.compile(r'(?<= )(&&|\|\|)(?= )'), None),
    ('plus1', re.compile(r'(\+=? )1(?![\w.])'), None),
    ('minus1', re.compile(r'(-=? )1(?![\w.])'), None),
    ('bool', re.compile(r'(?<![\w])(true|false)(?![\w])'), None),
    ('neg', re.compile(r'(?<![\w\]\)#])!(?![=\[])'), None),
    ('lit01', re.compile(r'(?<![\w])([01])(?=' + INT_SUFFIX + r'(?![\w]))'), None),
]
REL_SWAP = {'<': '<=', '<=': '<', '>': '>=', '>=': '>', '==': '!=', '!=': '=='}


def line_mutations(line, mline):
    """yield (col, operator, mutated line) for one source line; mline = same line with non-code blanked"""
    out = []
    for name, rx, _ in OPERATORS:
        for m in rx.finditer(mline):
            s, e = m.span()
            if name == 'rel':
                op = m.group(1)
                # `->`/`=>` have no space before the `>`; generic brackets are not space-separated
                out.append((s, 'rel:%s->%s' % (op, REL_SWAP[op]), line[:s] + REL_SWAP[op] + line[e:]))
            elif name == 'logic':
                op = m.group(1)
                new = '||' if op == '&&' else '&&'
                out.append((s, 'logic:%s->%s' % (op, new), line[:s] + new + line[e:]))
            elif name == 'plus1':
                for d in '02':
                    out.append((s, 'plus1:%s1->%s%s' % (m.group(1), m.group(1), d), line[:s] + m.group(1) + d + line[e:]))
            elif name == 'minus1':
                out.append((s, 'minus1:%s1->%s0' % (m.group(1), m.group(1)), line[:s] + m.group(1) + '0' + line[e:]))
            elif name == 'bool':
                new = 'false' if m.group(1) == 'true' else 'true'
                out.append((s, 'bool:%s->%s' % (m.group(1), new), line[:s] + new + line[e:]))
            elif name == 'neg':
                out.append((s, 'neg:remove!', line[:s] + line[e:]))
            elif name == 'lit01':
                before = mline[:s]
                if before.endswith('.') and not before.endswith('..'):
                    continue            # tuple field x.0
                after = mline[e:]
                if re.match(r'\.\d', after) or re.match(r'[eE][+-]?\d', after):
                    continue            # float
                new = '1' if m.group(1) == '0' else '0'
                out.append((s, 'lit01:%s->%s' % (m.group(1), new), line[:s] + new + line[e:]))
    return out


REV = None       # --rev <commit>: read the sources from that commit of /repo instead of its working tree


def read_src(relpath):
    if REV:
        return subprocess.run(['git', '-C', REPO, 'show', '%s:%s' % (REV, relpath)], check=True, capture_output=True, text=True).stdout
    return open(os.path.join(REPO, relpath)).read()


def file_mutants(fname):
    src = read_src('src/%s.rs' % fname)
    mask = code_mask(src)
    msrc = ''.join(c if (m or c == '\n') else ' ' for c, m in zip(src, mask))
    lines = src.split('\n')
    mlines = msrc.split('\n')
    skip = skipped_lines(lines, mlines)
    muts, seen = [], set()
    for i, (line, mline) in enumerate(zip(lines, mlines)):
        if i in skip or not mline.strip():
            continue
        for col, op, new in sorted(line_mutations(line, mline), key=lambda t: (t[0], t[1])):
            if new == line or (i, new) in seen:
                continue
            seen.add((i, new))
            muts.append(dict(file='src/%s.rs' % fname, line=i + 1, col=col + 1, operator=op, original=line, mutated=new))
    for k, m in enumerate(muts):
        m['id'] = 'M%s/%04d' % (fname, k)
    return muts, lines


def make_diff(m, lines=None):
    if lines is None:
        lines = read_src(m['file']).split('\n')
    new = list(lines)
    assert new[m['line'] - 1] == m['original'], m
    new[m['line'] - 1] = m['mutated']
    a = [l + '\n' for l in lines]
    b = [l + '\n' for l in new]
    if lines and lines[-1] == '':
        a, b = a[:-1], b[:-1]
    return ''.join(difflib.unified_diff(a, b, 'a/' + m['file'], 'b/' + m['file'], n=3))


def select(files, limit=None, first=None):
    allm = []
    for f in files:
        muts, _ = file_mutants(f)
        allm += muts
    total = len(allm)
    if first is not None:
        allm = allm[:first]
    if limit is not None and limit < len(allm):
        n = len(allm)
        idx = sorted({(k * n) // limit for k in range(limit)})
        allm = [allm[k] for k in idx]
    return allm, total


# ---------------------------------------------------------------------------------------------- filtering

def limits():
    import resource
    os.setsid()
    resource.setrlimit(resource.RLIMIT_AS, (12 << 30, 12 << 30))


def run_to(cmd, cwd, timeout, env):
    """run with a timeout, killing the whole process group; returns (rc | 'timeout', tail of output)"""
    p = subprocess.Popen(cmd, cwd=cwd, env=env, stdout=subprocess.PIPE, stderr=subprocess.STDOUT, text=True,
                         preexec_fn=limits)
    try:
        out, _ = p.communicate(timeout=timeout)
        return p.returncode, out
    except subprocess.TimeoutExpired:
        try:
            os.killpg(p.pid, signal.SIGKILL)
        except ProcessLookupError:
            pass
        out, _ = p.communicate()
        return 'timeout', out


class Worker:
    def __init__(self, k, base, jobs):
        self.k = k
        self.wt = os.path.join(base, 'wt%d' % k)
        self.env = dict(os.environ, CARGO_NET_OFFLINE='true', CARGO_BUILD_JOBS=str(jobs), RUST_TEST_THREADS=str(jobs),
                        CARGO_TERM_COLOR='never', CARGO_INCREMENTAL='1')
        self.env.pop('RUSTFLAGS', None)
        self.base_test_s = None

    def setup(self):
        subprocess.run(['git', '-C', REPO, 'worktree', 'remove', '--force', self.wt], capture_output=True)
        shutil.rmtree(self.wt, ignore_errors=True)
        subprocess.run(['git', '-C', REPO, 'worktree', 'add', '--detach', self.wt, REV or 'HEAD', '-q'], check=True)
        shutil.copyfile(os.path.join(REPO, 'Cargo.lock'), os.path.join(self.wt, 'Cargo.lock'))
        rc, out = run_to(['cargo', 'build', '--offline'], self.wt, 1800, self.env)
        assert rc == 0, out[-2000:]
        t0 = time.time()
        rc, out = run_to(['cargo', 'test', '--workspace', '--no-fail-fast', '--offline'], self.wt, 3600, self.env)
        assert rc == 0, 'baseline suite fails in %s:\n%s' % (self.wt, out[-3000:])
        # second run = incremental timing
        t0 = time.time()
        rc, out = run_to(['cargo', 'test', '--workspace', '--no-fail-fast', '--offline'], self.wt, 3600, self.env)
        assert rc == 0
        self.base_test_s = time.time() - t0

    def teardown(self):
        shutil.rmtree(os.path.join(self.wt, 'target'), ignore_errors=True)
        subprocess.run(['git', '-C', REPO, 'worktree', 'remove', '--force', self.wt], capture_output=True)
        shutil.rmtree(self.wt, ignore_errors=True)

    def evaluate(self, m, diff, test_timeout):
        subprocess.run(['git', 'checkout', '-q', '--', '.'], cwd=self.wt, check=True)
        r = subprocess.run(['git', 'apply', '-'], cwd=self.wt, input=diff, text=True, capture_output=True)
        if r.returncode != 0:
            return dict(status='apply-error', detail=r.stderr[-300:])
        t0 = time.time()
        rc, out = run_to(['cargo', 'build', '--offline'], self.wt, 900, self.env)
        if rc != 0:
            err = [l for l in out.split('\n') if l.startswith('error')][:1]
            return dict(status='nocompile', detail=(err or [''])[0][:200], s=round(time.time() - t0, 1))
        rc, out = run_to(['cargo', 'test', '--workspace', '--no-fail-fast', '--offline'], self.wt, test_timeout, self.env)
        s = round(time.time() - t0, 1)
        if rc == 'timeout':
            return dict(status='killed', how='timeout', s=s)
        if rc != 0:
            if re.search(r'^error(\[E\d+\])?:', out, re.M) and 'test result:' not in out:
                # test targets do not compile with the mutant (e.g. a unit test uses a changed signature)
                return dict(status='nocompile', detail='test targets: ' + (re.findall(r'^error.*', out, re.M) or [''])[0][:200], s=s)
            failed = re.findall(r'^test (\S+) \.\.\. FAILED', out, re.M)
            failed += re.findall(r'^test (\S+ - .*?) \.\.\. FAILED', out, re.M)
            return dict(status='killed', how='tests', failed=sorted(set(failed))[:6], nfailed=len(set(failed)), s=s)
        return dict(status='survived', s=s)


def cmd_filter(muts, total, a):
    out_dir = a.get('out', '/verif/work/mutants')
    base = a.get('wt-base', '/tmp/mut')
    nworkers = int(a.get('workers', 6))
    jobs = int(a.get('jobs', 2))
    os.makedirs(out_dir, exist_ok=True)
    os.makedirs(base, exist_ok=True)
    res_path = os.path.join(out_dir, 'results.json')
    results = json.load(open(res_path)) if os.path.exists(res_path) and 'fresh' not in a else {}
    todo = [m for m in muts if m['id'] not in results]
    print('generated (all operators, selected files): %d; selected: %d; already evaluated: %d; to do: %d'
          % (total, len(muts), len(muts) - len(todo), len(todo)), flush=True)
    workers = [Worker(k, base, jobs) for k in range(min(nworkers, max(1, len(todo))))]
    if not todo:
        workers = []
    with concurrent.futures.ThreadPoolExecutor(len(workers) or 1) as ex:
        list(ex.map(lambda w: w.setup(), workers))
    if workers:
        bt = max(w.base_test_s for w in workers)
        test_timeout = float(a.get('test-timeout', max(240, 4 * bt)))
        print('baseline suite (incremental, per worktree): %.0f s; test timeout %.0f s' % (bt, test_timeout), flush=True)
    lock = threading.Lock()
    files_lines = {}
    it = iter(todo)

    def loop(w):
        while True:
            with lock:
                m = next(it, None)
            if m is None:
                return
            if m['file'] not in files_lines:
                files_lines[m['file']] = read_src(m['file']).split('\n')
            diff = make_diff(m, files_lines[m['file']])
            try:
                r = w.evaluate(m, diff, test_timeout)
            except Exception as e:                                     # keep the campaign going
                r = dict(status='error', detail=repr(e)[:300])
            rec = dict(m, **r)
            with lock:
                results[m['id']] = rec
                if r['status'] == 'survived':
                    d = os.path.join(out_dir, m['id'])
                    os.makedirs(d, exist_ok=True)
                    open(os.path.join(d, 'patch.diff'), 'w').write(diff)
                    json.dump({k: m[k] for k in ('id', 'file', 'line', 'col', 'operator', 'original', 'mutated')},
                              open(os.path.join(d, 'meta.json'), 'w'), indent=1, ensure_ascii=False)
                json.dump(results, open(res_path + '.tmp', 'w'), indent=1, ensure_ascii=False)
                os.replace(res_path + '.tmp', res_path)
                print('%s %s:%d %s -> %s %s' % (m['id'], m['file'], m['line'], m['operator'], r['status'],
                                                 r.get('how', '') or r.get('detail', '')), flush=True)

    try:
        with concurrent.futures.ThreadPoolExecutor(len(workers) or 1) as ex:
            list(ex.map(loop, workers))
    finally:
        if 'keep-worktrees' not in a:
            for w in workers:
                w.teardown()
    summarize(results, muts)


def summarize(results, muts):
    sel = [results[m['id']] for m in muts if m['id'] in results]
    by = {}
    for r in sel:
        f = r['file']
        by.setdefault(f, {}).setdefault(r['status'], 0)
        by[f][r['status']] += 1
    print('%-18s %9s %9s %9s %9s' % ('file', 'evaluated', 'compiled', 'killed', 'survived'))
    tot = [0, 0, 0, 0]
    for f in sorted(by):
        c = by[f]
        ev = sum(c.values())
        comp = c.get('killed', 0) + c.get('survived', 0)
        row = [ev, comp, c.get('killed', 0), c.get('survived', 0)]
        tot = [x + y for x, y in zip(tot, row)]
        print('%-18s %9d %9d %9d %9d' % tuple([f] + row))
    print('%-18s %9d %9d %9d %9d' % tuple(['total'] + tot))


def main():
    argv = sys.argv[1:]
    if not argv or argv[0] in ('-h', '--help'):
        print(__doc__)
        return
    cmd, rest = argv[0], argv[1:]
    a, pos = {}, []
    i = 0
    while i < len(rest):
        if rest[i].startswith('--'):
            k = rest[i][2:]
            if k in ('keep-worktrees', 'fresh'):
                a[k] = True; i += 1
            else:
                a[k] = rest[i + 1]; i += 2
        else:
            pos.append(rest[i]); i += 1
    global REV
    REV = a.get('rev')
    files = a['files'].split(',') if 'files' in a else ALL_FILES
    files = [f[:-3] if f.endswith('.rs') else f for f in files]
    limit = int(a['limit']) if 'limit' in a else None
    first = int(a['first']) if 'first' in a else None
    if cmd == 'list':
        muts, total = select(files, limit, first)
        for m in muts:
            print('%s\t%s:%d:%d\t%s\t%s' % (m['id'], m['file'], m['line'], m['col'], m['operator'], m['mutated'].strip()))
        print('# %d of %d' % (len(muts), total))
    elif cmd == 'diff':
        muts, _ = select(files)
        m = [m for m in muts if m['id'] == pos[0]][0]
        sys.stdout.write(make_diff(m))
    elif cmd == 'filter':
        muts, total = select(files, limit, first)
        cmd_filter(muts, total, a)
    elif cmd == 'summary':
        muts, total = select(files, limit, first)
        res = json.load(open(os.path.join(a.get('out', '/verif/work/mutants'), 'results.json')))
        summarize(res, [m for m in muts if m['id'] in res])
    else:
        print(__doc__)
        sys.exit(2)


if __name__ == '__main__':
    main()
