#!/usr/bin/env python3
"""parsetie.py <tier> [seed] -- the Lean parser model (fmparse) against the Rust parser, line by line.

Builds nothing. Needs
  harness/target/release/fvharness   (cd /verif/harness && cp /repo/Cargo.lock Cargo.lock && cargo build --release --offline)
  lean/.lake/build/bin/fmparse       (cd /verif/lean && lake build FancyModel.Model.Parse fmparse)

Runs `fvharness parsetie` over 16 shards into work/parsetie/s<i>/ (req.txt, impl.txt), pipes each req.txt
through fmparse into model.txt, compares line by line. Exit status 0 iff there is no disagreement
(and no implementation-only oracle failure: panic, error position past the end).
"""
import collections, concurrent.futures, json, os, subprocess, sys, time

VERIF = os.path.dirname(os.path.dirname(os.path.abspath(__file__)))
HBIN = os.path.join(VERIF, 'harness', 'target', 'release', 'fvharness')
FMPARSE = os.path.join(VERIF, 'lean', '.lake', 'build', 'bin', 'fmparse')
WORK = os.path.join(VERIF, 'work', 'parsetie')
NSHARDS = int(os.environ.get('VERIF_SHARDS', '16'))


def unhex(h):
    return b'' if h == '-' else bytes.fromhex(h)


def run_shard(args):
    tier, seed, i = args
    d = os.path.join(WORK, 's%d' % i)
    os.makedirs(d, exist_ok=True)
    for f in ('req.txt', 'impl.txt', 'model.txt', 'oracle.jsonl'):
        p = os.path.join(d, f)
        if os.path.exists(p):
            os.remove(p)
    t0 = time.time()
    r = subprocess.run([HBIN, 'parsetie', '--tier', tier, '--seed', str(seed), '--shard', '%d/%d' % (i, NSHARDS), '--out', d],
                       stdout=subprocess.PIPE, stderr=subprocess.STDOUT, text=True)
    t1 = time.time()
    if r.returncode != 0:
        return i, 'harness failed (%d): %s' % (r.returncode, r.stdout[-2000:]), 0, 0
    with open(os.path.join(d, 'req.txt'), 'rb') as fin, open(os.path.join(d, 'model.txt'), 'wb') as fout:
        # the model recurses on the native stack: give it room for the long inputs
        r2 = subprocess.run('ulimit -s unlimited 2>/dev/null || ulimit -s 1000000 2>/dev/null; exec "%s"' % FMPARSE, shell=True,
                            stdin=fin, stdout=fout, stderr=subprocess.PIPE)
    t2 = time.time()
    if r2.returncode != 0:
        return i, 'fmparse failed (%d): %s' % (r2.returncode, r2.stderr.decode('utf-8', 'replace')[-2000:]), t1 - t0, t2 - t1
    return i, None, t1 - t0, t2 - t1


def answer_class(a):
    parts = a.split(' ')
    if parts[0] == 'err' and len(parts) > 1:
        return 'err ' + parts[1]
    return parts[0]


def main():
    if len(sys.argv) < 2 or sys.argv[1] not in ('quick', 'thorough'):
        print(__doc__)
        return 2
    tier = sys.argv[1]
    seed = int(sys.argv[2]) if len(sys.argv) > 2 else 1
    missing = [p for p in (HBIN, FMPARSE) if not os.path.exists(p)]
    if missing:
        print('missing: %s' % ', '.join(missing))
        print(__doc__)
        return 2
    os.makedirs(WORK, exist_ok=True)
    t0 = time.time()
    with concurrent.futures.ThreadPoolExecutor(max_workers=NSHARDS) as ex:
        results = list(ex.map(run_shard, [(tier, seed, i) for i in range(NSHARDS)]))
    failed = False
    th = tm = 0.0
    for i, err, a, b in results:
        th = max(th, a)
        tm = max(tm, b)
        if err:
            print('shard %d: %s' % (i, err))
            failed = True
    total = agree = 0
    classes_impl = collections.Counter()
    classes_model = collections.Counter()
    disagreements = []
    oracle = []
    patterns = 0
    for i in range(NSHARDS):
        d = os.path.join(WORK, 's%d' % i)
        try:
            req = open(os.path.join(d, 'req.txt'), 'rb').read().split(b'\n')
            imp = open(os.path.join(d, 'impl.txt'), 'rb').read().split(b'\n')
            mod = open(os.path.join(d, 'model.txt'), 'rb').read().split(b'\n')
        except FileNotFoundError as e:
            print('shard %d: %s' % (i, e))
            failed = True
            continue
        for l in (req, imp, mod):
            if l and l[-1] == b'':
                l.pop()
        if not (len(req) == len(imp) == len(mod)):
            print('shard %d: line counts differ: req %d impl %d model %d' % (i, len(req), len(imp), len(mod)))
            failed = True
        for k in range(min(len(req), len(imp), len(mod))):
            total += 1
            a = imp[k].decode('utf-8', 'replace')
            b = mod[k].decode('utf-8', 'replace')
            f = req[k].split(b'\t')
            if f[0] == b'parse':
                patterns += 1
                classes_impl[answer_class(a)] += 1
                classes_model[answer_class(b)] += 1
            else:
                classes_impl[f[0].decode()] += 1
                classes_model[f[0].decode()] += 1
            if a == b:
                agree += 1
            else:
                disagreements.append((req[k], a, b))
        op = os.path.join(d, 'oracle.jsonl')
        if os.path.exists(op):
            for line in open(op, encoding='utf-8', errors='replace'):
                line = line.strip()
                if line:
                    oracle.append(line)
    print('tier=%s seed=%d shards=%d wall=%.1fs (harness max %.1fs, fmparse max %.1fs)' % (tier, seed, NSHARDS, time.time() - t0, th, tm))
    print('total lines      %d  (parse requests %d)' % (total, patterns))
    print('agreeing lines   %d' % agree)
    print('disagreements    %d' % len(disagreements))
    print('answer classes (implementation / model):')
    for c in sorted(set(classes_impl) | set(classes_model)):
        print('  %-32s %9d %9d' % (c, classes_impl[c], classes_model[c]))
    if oracle:
        print('implementation-only oracle failures: %d (first 20)' % len(oracle))
        for o in oracle[:20]:
            print('  ' + o[:400])
    if disagreements:
        print('first %d disagreements:' % min(20, len(disagreements)))
        disagreements.sort(key=lambda d: len(d[0]))
        for rq, a, b in disagreements[:20]:
            f = rq.split(b'\t')
            if f[0] == b'parse' and len(f) == 3:
                try:
                    pat = unhex(f[1].decode())
                except ValueError:
                    pat = f[1]
                print('  pattern %r casei=%s' % (pat.decode('utf-8', 'replace')[:200], f[2].decode()))
            else:
                print('  request %r' % rq[:200])
            print('    impl : %s' % a[:600])
            print('    model: %s' % b[:600])
    ok = not failed and not disagreements and not oracle
    print('RESULT %s' % ('agree' if ok else 'DISAGREE'))
    return 0 if ok else 1


if __name__ == '__main__':
    sys.exit(main())
