#!/usr/bin/env python3
"""Apply each seeded change to /repo, run the checks, undo it. usage: sweep.py <dir with <ID>/<v>/patch.diff> [props...]
Results: /verif/work/sweep.json"""
import glob, json, os, subprocess, sys, time
root = sys.argv[1]
only = sys.argv[2:]
ALL = ['C%02d' % i for i in range(1, 21)]
res = {}
out_path = '/verif/work/sweep.json'
if os.path.exists(out_path):
    res = json.load(open(out_path))
for patch in sorted(glob.glob(root + '/*/*/patch.diff')):
    pid, var = patch.split('/')[-3], patch.split('/')[-2]
    key = pid + var
    if key in res and not only:
        continue
    subprocess.run('git -C /repo checkout -- . ', shell=True)
    r = subprocess.run(['git', '-C', '/repo', 'apply', patch], capture_output=True, text=True)
    if r.returncode != 0:
        res[key] = {'error': 'patch does not apply: ' + r.stderr[:300]}
        continue
    props = only or ALL
    det = {}
    env = dict(os.environ, VERIF_SKIP_LEAN='1')
    for p in props:
        t0 = time.time()
        rr = subprocess.run(['./check', p], cwd='/verif', capture_output=True, text=True, env=env)
        lines = [l for l in rr.stdout.split('\n') if l.startswith('VIOLATION')]
        det[p] = {'rc': rr.returncode, 'violations': len(lines), 'first': lines[:1], 's': round(time.time() - t0, 1)}
        if lines:
            try:
                path = lines[0].split('replay=')[1].split()[0]
                rec = json.load(open(path))
                det[p]['replay'] = {k: rec[k] for k in rec if k in ('kind', 'what', 'pattern', 'text', 'pos', 'observed', 'expected', 'implementation', 'model', 'detail', 'pattern2', 'request')}
            except Exception as e:
                det[p]['replay'] = str(e)
    subprocess.run('git -C /repo checkout -- . ', shell=True)
    res[key] = {'own': det.get(pid, {}).get('rc'), 'detected_by': [p for p in det if det[p]['rc'] != 0], 'detail': det}
    json.dump(res, open(out_path, 'w'), indent=1, ensure_ascii=False)
    print(key, 'own property:', det.get(pid, {}).get('rc'), 'detected by', res[key]['detected_by'], flush=True)
subprocess.run('git -C /repo checkout -- . ', shell=True)
subprocess.run(['python3', '/verif/tools/extract.py'])
