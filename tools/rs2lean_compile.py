#!/usr/bin/env python3
"""Translate the compiler of fancy-regex (src/compile.rs: VMBuilder, DelegateBuilder, Compiler, compile; plus
`Info::is_literal` / `Info::push_literal` of src/analyze.rs) into Lean: lean/FancyModel/GeneratedCompile.lean.

usage: rs2lean_compile.py [COMPILE_RS] [-o OUT.lean] [--analyze ANALYZE_RS] [--lib LIB_RS] [--vm VM_RS] [--stub-on-failure]
       (COMPILE_RS defaults to $RS2LEAN_COMPILE_SRC or /repo/src/compile.rs, OUT to $RS2LEAN_COMPILE_OUT or
        lean/FancyModel/GeneratedCompile.lean; the other sources default to the files next to COMPILE_RS, else /repo/src;
        --stub-on-failure, used by tools/extract.py: a failure leaves a stub that does not compile in OUT and exits 0)

Mechanical: the tokenizer and expression parser of the two other translators, a statement / pattern parser for the
subset compile.rs uses, then one Lean `let` / `match` per Rust statement in source order, one definition per method and
per `for` loop. Anything outside the subset is an error (exit status 2, construct + line) - nothing is guessed.
What is NOT read from the Rust text (the adaptors) is in lean/FancyModel/GenCompilePrelude.lean and in the tables below;
see notes/translator-compile.md.
"""
import os, re, sys

sys.path.insert(0, os.path.dirname(os.path.abspath(__file__)))
import rs2lean_analyze as ra
import rs2lean_vm as rv
from rs2lean_analyze import Unsupported, bad, matching, top_level_positions, parse_enum, parse_struct, int_of

VERIF = os.path.dirname(os.path.dirname(os.path.abspath(__file__)))
DEFAULT_SRC = '/repo/src/compile.rs'
DEFAULT_OUT = os.path.join(VERIF, 'lean', 'FancyModel', 'GeneratedCompile.lean')

# ------------------------------------------------------------------------------------------------ adaptor tables
EXPR_VARIANTS = {v[0]: v for v in ra.VARIANTS}          # Rust `Expr` variant -> (name, shape, fields, Lean template)
INSN_VARIANTS = {v[0]: v for v in rv.VARIANTS}          # Rust `Insn` variant -> (name, shape, fields, Lean template)
LOOK = {'LookAhead': '.ahead', 'LookAheadNeg': '.aheadNeg', 'LookBehind': '.behind', 'LookBehindNeg': '.behindNeg'}
INFO_FIELDS = {'start_group': ('startGroup', 'usize'), 'end_group': ('endGroup', 'usize'), 'min_size': ('minSize', 'usize'),
               'const_size': ('constSize', 'bool'), 'hard': ('hard', 'bool'), 'expr': ('expr', 'Expr'),
               'children': ('children', 'Infos')}
LEAN_TY = {'usize': 'Nat', 'bool': 'Bool', 'String': 'List Char', 'VecUsize': 'List Nat', 'VecInsn': 'List Insn',
           'Info': 'GInfo', 'Infos': 'List GInfo', 'Insn': 'Insn', 'OptUsize': 'Option Nat', 'Look': 'Look', 'Expr': 'Expr',
           'Exprs': 'List Expr', 'Compiler': 'Compiler', 'VMBuilder': 'VMBuilder', 'DelegateBuilder': 'DelegateBuilder',
           'Prog': 'Prog', 'Assertion': 'Assertion', 'Handler': 'Compiler → Nat → Except CErr Compiler'}
RUST_TY = {'usize': 'usize', 'bool': 'bool', 'String': 'String', '&mut String': 'String', '&mutString': 'String',
           'Vec<Insn>': 'VecInsn', 'Insn': 'Insn', "&Info<'_>": 'Info', '&Info': 'Info', "&[Info<'_>]": 'Infos',
           'LookAround': 'Look', 'Option<usize>': 'OptUsize', 'VMBuilder': 'VMBuilder', 'Compiler': 'Compiler',
           'DelegateBuilder': 'DelegateBuilder', 'F': 'Handler', 'RegexOptions': 'Options', '&RegexOptions': 'Options',
           'Prog': 'Prog'}
KEYWORDS = set(ra.LEAN_KEYWORDS) | set(rv.EXTRA_KEYWORDS)
# struct fields: DelegateBuilder::re is the list of expressions handed to regex-automata (GenCompilePrelude.lean)
STRUCTS = {'VMBuilder': [('prog', 'Vec<Insn>', 'VecInsn'), ('n_saves', 'usize', 'usize')],
           'DelegateBuilder': [('re', 'String', 'Exprs'), ('min_size', 'usize', 'usize'), ('const_size', 'bool', 'bool'),
                               ('start_group', 'Option<usize>', 'OptUsize'), ('end_group', 'usize', 'usize')],
           'Compiler': [('b', 'VMBuilder', 'VMBuilder'), ('options', 'RegexOptions', None)]}
SKIP_FUNCS = {'compile_inner'}
HANDLER_BOUND = 'F:FnMut(&mutCompiler,usize)->Result<()>'


def lid(name):
    return name + '_' if name in KEYWORDS else name


def rust_ty(pt):
    return RUST_TY.get(pt, RUST_TY.get(pt.replace(' ', '')))


# ------------------------------------------------------------------------------------------------ parser

class P(rv.Parser):
    """statement / expression / pattern subset of compile.rs; blocks are (stmts, tail expression or None)"""

    def p_unary(self, ns):
        t = self.peek()
        if t.kind == 'op' and t.text == '|':
            self.next()
            params = []
            while not self.at('|'):
                params.append(self.ident())
                if self.at(':'):
                    bad('typed closure parameter', t.line)
                if not self.at('|'):
                    self.expect(',')
            self.next()
            body = ('blockexpr', self.block(), t.line) if self.at('{') else self.expr()
            return ('closure', params, body, t.line)
        if t.kind == 'op' and t.text == '||':
            bad('closure without parameters', t.line)
        if t.kind == 'op' and t.text == '*':
            self.next()
            return ('deref', self.p_unary(ns), t.line)
        return rv.Parser.p_unary(self, ns)

    def p_postfix(self, ns):
        e = self.p_primary(ns)
        while True:
            t = self.peek()
            if t.kind != 'op':
                break
            if t.text == '.':
                self.next()
                nt = self.next()
                if nt.kind != 'id':
                    bad('`.%s`' % nt.text, nt.line)
                if self.at('('):
                    e = ('mcall', e, nt.text, self.args(), nt.line)
                elif self.at('::'):
                    bad('turbofish method call', nt.line)
                else:
                    e = ('field', e, nt.text, nt.line)
            elif t.text == '[':
                self.next()
                if self.at('..'):
                    self.next()
                    idx = ('slice', None, self.p_oror(False))
                else:
                    lo = self.p_oror(False)
                    if self.at('..'):
                        self.next()
                        idx = ('slice', lo, None if self.at(']') else self.p_oror(False))
                    else:
                        idx = lo
                self.expect(']')
                e = ('index', e, idx, t.line)
            elif t.text == '?':
                self.next()
                e = ('try', e, t.line)
            else:
                break
        return e

    def p_primary(self, ns):
        t = self.peek()
        if t.kind == 'str':
            self.next()
            return ('str', t.text, t.line)
        if t.kind == 'id' and t.text == 'if':
            return self.if_()
        if t.kind == 'id' and t.text == 'match':
            self.next()
            scrut = self.expr(no_struct=True)
            return ('match', scrut, self.arms(), t.line)
        if t.kind == 'op' and t.text == '(':
            self.next()
            if self.at(')'):
                self.next()
                return ('unit', t.line)
            e = self.expr()
            if self.at(','):
                items = [e]
                while self.at(','):
                    self.next()
                    if self.at(')'):
                        break
                    items.append(self.expr())
                self.expect(')')
                return ('tuple', items, t.line)
            self.expect(')')
            return ('paren', e, t.line)
        if t.kind == 'id' and t.text == 'panic' and self.peek(1).text == '!' and self.peek(2).text == '(':
            self.next()
            self.next()
            a = self.args()
            if len(a) != 1 or a[0][0] != 'str':
                bad('panic! with something else than one string literal', t.line)
            return ('panic', a[0][1], t.line)
        return ra.Parser.p_primary(self, ns)

    def if_(self):
        t = self.expect('if')
        pat = None
        if self.at('let'):
            self.next()
            pat = self.pattern()
            self.expect('=')
        c = self.expr(no_struct=True)
        th = self.block()
        el = None
        if self.at('else'):
            self.next()
            el = ([], self.if_()) if self.at('if') else self.block()
        return ('if', pat, c, th, el, t.line)

    def arms(self):
        self.expect('{')
        out = []
        while not self.at('}'):
            t = self.peek()
            pats = [self.pattern()]
            while self.at('|'):
                self.next()
                pats.append(self.pattern())
            guard = None
            if self.at('if'):
                self.next()
                guard = self.expr(no_struct=True)
            self.expect('=>')
            if self.at('{'):
                body = self.block()
            else:
                s = self.simple()
                body = ([s], None) if s[0] in ('assign', 'return') else ([], s[1])
            if self.at(','):
                self.next()
            out.append((pats, guard, body, t.line))
        self.expect('}')
        return out

    def pattern(self):
        t = self.peek()
        if t.kind == 'op' and t.text == '&':
            self.next()
            return self.pattern()
        if t.kind == 'op' and t.text == '(':
            self.next()
            items = []
            while not self.at(')'):
                items.append(self.pattern())
                if not self.at(')'):
                    self.expect(',')
            self.next()
            return ('ptuple', items, t.line)
        if t.kind != 'id':
            bad('pattern starting with `%s`' % t.text, t.line)
        if t.text == 'ref':
            self.next()
            mut = False
            if self.at('mut'):
                self.next()
                mut = True
            return ('bind', self.ident(), mut, t.line)
        if t.text == 'mut':
            bad('`mut` binding in a pattern', t.line)
        if t.text == '_':
            self.next()
            return ('wild', t.line)
        if t.text in ('true', 'false'):
            self.next()
            return ('plit', t.text == 'true', t.line)
        path = [self.ident()]
        while self.at('::'):
            self.next()
            path.append(self.ident())
        if self.at('('):
            self.next()
            items, rest = [], False
            while not self.at(')'):
                if self.at('..'):
                    self.next()
                    rest = True
                else:
                    items.append(self.pattern())
                if not self.at(')'):
                    self.expect(',')
            self.next()
            return ('ptuplev', path, items, rest, t.line)
        if self.at('{'):
            self.next()
            items, rest = [], False
            while not self.at('}'):
                if self.at('..'):
                    self.next()
                    rest = True
                    break
                refmut = False
                if self.at('ref'):
                    self.next()
                    if self.at('mut'):
                        self.next()
                        refmut = True
                f = self.ident()
                if self.at(':'):
                    self.next()
                    items.append((f, self.pattern()))
                else:
                    items.append((f, ('bind', f, refmut, t.line)))
                if not self.at('}'):
                    self.expect(',')
            self.expect('}')
            return ('pstructv', path, items, rest, t.line)
        if len(path) == 1 and not path[0][:1].isupper():
            return ('bind', path[0], False, t.line)
        return ('ppath', path, t.line)

    def simple(self):
        t = self.peek()
        if t.kind == 'id' and t.text == 'return':
            self.next()
            return ('return', self.expr(), t.line)
        if t.kind == 'id' and t.text in ('break', 'continue', 'while', 'loop', 'unsafe'):
            bad('`%s`' % t.text, t.line)
        e = self.expr()
        nt = self.peek()
        if nt.kind == 'op' and nt.text in ('=', '+=', '&=', '|=', '-=', '*=', '/=', '%=', '^='):
            self.next()
            if nt.text not in ('=', '+=', '&=', '|='):
                bad('compound assignment `%s`' % nt.text, nt.line)
            return ('assign', e, nt.text, self.expr(), t.line)
        return ('expr', e, t.line)

    def block(self):
        self.expect('{')
        stmts, tail = [], None
        while not self.at('}'):
            t = self.peek()
            if t.kind == 'op' and t.text == '#':
                self.attribute()
            elif t.kind == 'id' and t.text == 'let':
                self.next()
                mut = False
                if self.at('mut'):
                    self.next()
                    mut = True
                pat = self.pattern()
                if pat[0] not in ('bind', 'ptuple') or (pat[0] == 'ptuple' and any(x[0] not in ('bind', 'wild') for x in pat[1])):
                    bad('`let` with a pattern other than an identifier or a tuple of identifiers', t.line)
                ty = None
                if self.at(':'):
                    self.next()
                    ty = self.type_(['=', ';'])
                if not self.at('='):
                    bad('`let` without an initialiser', t.line)
                self.next()
                e = self.expr()
                if self.at('else'):
                    bad('`let … else`', t.line)
                self.expect(';')
                stmts.append(('let', pat, mut, ty, e, t.line))
            elif t.kind == 'id' and t.text == 'for':
                self.next()
                if self.peek().kind != 'id' or self.peek(1).text != 'in':
                    bad('`for` with a pattern other than a plain identifier', t.line)
                var = self.ident()
                self.expect('in')
                it = self.expr(no_struct=True)
                stmts.append(('for', var, it, self.block(), t.line))
            elif t.kind == 'id' and t.text in ('if', 'match'):
                s = self.p_primary(False)
                if self.at('}'):
                    tail = s
                else:
                    if self.at(';'):
                        self.next()
                    stmts.append(s)
            elif (t.kind == 'id' and t.text in ('while', 'loop', 'unsafe', 'fn', 'struct', 'use', 'const', 'static')) or t.kind == 'life':
                bad('`%s` statement' % t.text, t.line)
            elif t.kind == 'op' and t.text == '{':
                bad('nested block statement', t.line)
            else:
                s = self.simple()
                if self.at(';'):
                    self.next()
                    stmts.append(s)
                elif self.at('}'):
                    if s[0] == 'expr':
                        tail = s[1]
                    else:
                        stmts.append(s)
                else:
                    bad('unexpected `%s` after a statement' % self.peek().text, self.peek().line)
        self.expect('}')
        return (stmts, tail)


class Fn:
    def __init__(self, owner, name, params, ret, body, line, where, selfkind):
        self.owner, self.name, self.params, self.ret, self.body, self.line, self.where, self.selfkind = \
            owner, name, params, ret, body, line, where, selfkind


def parse_fn(toks, k, owner):
    """function item starting at the `fn` token -> (Fn, index after its body)"""
    p = P(toks, k)
    line = p.expect('fn').line
    name = p.ident()
    if p.at('<'):
        while not p.at('>'):
            p.next()
        p.next()
    p.expect('(')
    params, selfkind = [], None
    while not p.at(')'):
        if p.at('&', 'mut', 'self'):
            p.next(); p.next(); p.next()
            selfkind = 'mut'
        elif p.at('&', 'self'):
            p.next(); p.next()
            selfkind = 'ref'
        elif p.at('self'):
            p.next()
            selfkind = 'own'
        else:
            mut = False
            if p.at('mut'):
                p.next()
                mut = True
            pn = p.ident()
            p.expect(':')
            params.append((pn, p.type_([',', ')']), mut))
        if not p.at(')'):
            p.expect(',')
    p.next()
    ret = '()'
    if p.at('->'):
        p.next()
        ret = p.type_(['{', 'where'])
    where = None
    if p.at('where'):
        p.next()
        w = []
        while not p.at('{'):
            w.append(p.next().text)
        where = ''.join(w).rstrip(',')
    body = p.block()
    return Fn(owner, name, params, ret, body, line, where, selfkind), p.i


def parse_impl(toks, type_name, src_tag):
    """methods of `impl[<..>] type_name[<..>] { .. }` -> [Fn]; items under `#[cfg(..)]` are skipped"""
    out = []
    for i in top_level_positions(toks):
        if toks[i].text != 'impl':
            continue
        j = i + 1
        for _ in range(2):
            if toks[j].text == '<':
                while toks[j].text != '>':
                    j += 1
                j += 1
            if toks[j].text == type_name:
                j += 1
        if toks[j].text != '{' or type_name not in [x.text for x in toks[i:j]]:
            continue
        end = matching(toks, j)
        k = j + 1
        while k < end:
            if toks[k].text == '#':
                close = matching(toks, k + 1)
                attr = ' '.join(x.text for x in toks[k + 2:close])
                if not attr.startswith('cfg'):
                    bad('attribute `#[%s]` on a method of %s' % (attr, type_name), toks[k].line)
                k = close + 1
                while toks[k].text != '{':
                    k += 1
                k = matching(toks, k) + 1
                continue
            while toks[k].text != 'fn':
                if toks[k].text not in ('pub', '(', ')', 'crate'):
                    bad('unexpected `%s` in impl %s' % (toks[k].text, type_name), toks[k].line)
                k += 1
            fn, k = parse_fn(toks, k, type_name)
            out.append(fn)
    if not out:
        bad('cannot find `impl %s` in %s' % (type_name, src_tag))
    return out


# ------------------------------------------------------------------------------------------------ translation

class Ctx:
    """per-function state: variable types, aliases, the name of the threaded `self`, fresh temporaries"""

    def __init__(self, tr, fn):
        self.tr, self.fn = tr, fn
        self.vars = {}          # name -> type tag (insertion order = declaration order)
        self.alias = {}         # name -> expression AST (`let alternatives = &inner.children;`)
        self.selfname, self.selfty = None, None
        self.tmp = [0]
        self.loops = [0]
        self.mutual = False

    def fresh(self):
        self.tmp[0] += 1
        return 't%d' % (self.tmp[0] - 1)

    def child(self):
        c = Ctx(self.tr, self.fn)
        c.__dict__.update(self.__dict__)
        c.vars, c.alias = dict(self.vars), dict(self.alias)
        return c


class Pre:
    """partial operations hoisted out of an expression: each wraps what follows in a `match`"""

    def __init__(self):
        self.items = []     # (scrutinee, panic site, binder pattern)

    def wrap(self, ind, k):
        out = []
        for scrut, site, pat in self.items:
            out.append(' ' * ind + 'match %s with' % scrut)
            if site is None:        # a fallible call inside an expression
                out.append(' ' * ind + '| .error err => .error err')
                out.append(' ' * ind + '| .ok %s =>' % pat)
            else:
                out.append(' ' * ind + '| none => .error (.panic "%s")' % site)
                out.append(' ' * ind + '| some %s =>' % pat)
            ind += 2
        return out + k(ind)


def is_path(e, *names):
    return e[0] == 'path' and list(e[1]) == list(names)


def strip_ref(e):
    while e[0] in ('ref', 'refmut', 'paren', 'deref'):
        e = e[1]
    return e


def walk(x, f):
    """apply f to every AST node (tuple whose head is a string) inside x"""
    if isinstance(x, tuple):
        if x and isinstance(x[0], str):
            f(x)
        for y in x:
            walk(y, f)
    elif isinstance(x, list):
        for y in x:
            walk(y, f)


def norm_variants(vs):
    return [(a, b, [tuple(x) if isinstance(x, (list, tuple)) else x for x in c]) for a, b, c in vs]


class Translator:
    def __init__(self, srcs):
        self.toks = srcs            # {'compile': toks, 'analyze': .., 'lib': .., 'vm': ..}
        self.funcs = {}             # (owner, name) -> Fn
        self.sig = {}               # (owner, name) -> dict
        self.extra = {}             # function key -> generated loop definitions (text)
        self.calls = {}             # function key -> set of (callee key, passes own Info parameter unchanged)
        self.text = False           # second reading: `DelegateBuilder::re` as the `String` it is (the text for regex-automata)

    # ---------------------------------------------------------------- checks of the declarations against the tables
    def check_tables(self):
        if norm_variants(parse_enum(self.toks['lib'], 'Expr')) != norm_variants([(v[0], v[1], v[2]) for v in ra.VARIANTS]):
            bad('lib.rs: `enum Expr` differs from the translator\'s variant table')
        if norm_variants(parse_enum(self.toks['vm'], 'Insn')) != norm_variants([(v[0], v[1], v[2]) for v in rv.VARIANTS]):
            bad('vm.rs: `enum Insn` differs from the translator\'s variant table')
        if [(a, b) for a, b, _ in parse_enum(self.toks['lib'], 'LookAround')] != [(k, 'unit') for k in LOOK]:
            bad('lib.rs: `enum LookAround` differs from the translator\'s table')
        fields, line = parse_struct(self.toks['analyze'], 'Info')
        if set(dict(fields)) != set(ra.INFO_FIELDS_EXPECTED) or any(ra.tag_of(t) != ra.INFO_FIELDS_EXPECTED[f] for f, t in fields):
            bad('analyze.rs: `struct Info` differs from the translator\'s table', line)
        for s, want in STRUCTS.items():
            fields, line = parse_struct(self.toks['compile'], s)
            if [(f, t.replace(' ', '')) for f, t in fields] != [(f, t.replace(' ', '')) for f, t, _ in want]:
                bad('compile.rs: `struct %s` differs from the translator\'s table: %s' % (s, fields), line)
        if ra.find_seq(self.toks['vm'], ['fn', 'new', '(', 'body', ':', 'Vec', '<', 'Insn', '>', ',', 'n_saves', ':', 'usize', ')',
                                         '->', 'Prog', '{', 'Prog', '{', 'body', ',', 'n_saves', '}', '}']) < 0:
            bad('vm.rs: `Prog::new` is not `Prog { body, n_saves }`')
        if ra.find_seq(self.toks['compile'], ['use', 'crate', '::', 'LookAround', '::', '*', ';']) < 0:
            bad('compile.rs: `use crate::LookAround::*;` not found')

    # ---------------------------------------------------------------- signatures
    def load(self):
        for owner in ('VMBuilder', 'Compiler', 'DelegateBuilder'):
            for f in parse_impl(self.toks['compile'], owner, 'compile.rs'):
                self.funcs[(owner, f.name)] = f
        for f in parse_impl(self.toks['analyze'], 'Info', 'analyze.rs'):
            if f.name in ('is_literal', 'push_literal'):
                self.funcs[('Info', f.name)] = f
        t = self.toks['compile']
        for i in top_level_positions(t):
            if t[i].text == 'fn' and t[i + 1].text not in SKIP_FUNCS:
                f, _ = parse_fn(t, i, None)
                self.funcs[(None, f.name)] = f
        for key, f in self.funcs.items():
            self.sig[key] = self.signature(f)
        changed = True      # fallibility of the functions that do not return `Result`: least fixpoint
        while changed:
            changed = False
            for key, f in self.funcs.items():
                if not self.sig[key]['fallible'] and self.can_fail(f.body):
                    self.sig[key]['fallible'] = True
                    changed = True

    def signature(self, f):
        ret = f.ret.replace(' ', '')
        s = {'fallible': ret.startswith('Result<'), 'ret': None, 'threads': []}
        inner = ret[len('Result<'):-1] if s['fallible'] else ret
        if inner == '()':
            s['ret'] = None
        elif inner == '&mutDelegateBuilder':
            s['ret'] = 'selfref'
        elif inner == 'Self':
            s['ret'] = f.owner
        elif rust_ty(inner) is not None and rust_ty(inner) not in ('Options', 'Handler'):
            s['ret'] = rust_ty(inner)
        else:
            bad('%s: return type `%s`' % (f.name, f.ret), f.line)
        for pn, pt, mut in f.params:
            ty = rust_ty(pt)
            if ty is None:
                bad('%s: parameter type `%s`' % (f.name, pt), f.line)
            if ty == 'Handler' and (f.where is None or f.where.replace(' ', '') != HANDLER_BOUND):
                bad('%s: closure parameter without the bound `%s`' % (f.name, HANDLER_BOUND), f.line)
            if pt.replace(' ', '').startswith('&mut'):
                s['threads'].append(pn)
        return s

    def can_fail(self, blk):
        found = []

        def f(n):
            if n[0] in ('try', 'panic', 'index') or (n[0] == 'bin' and n[1] == '-') or (n[0] == 'mcall' and n[2] == 'expect') or \
               (n[0] == 'return' and n[1][0] == 'call' and n[1][1] == ['Err']):
                found.append(n)
            if self.text and n[0] == 'mcall' and (n[2] == 'to_str' or (n[2] == 'push' and len(n[3]) == 1 and
                                                                        strip_ref(n[3][0])[0] == 'path' and strip_ref(n[3][0])[1][0].startswith('info'))):
                found.append(n)         # `to_str` can panic, hence `DelegateBuilder::push(info)` too
            if n[0] == 'mcall' and n[2] == 'push_literal' and not self.text and len(n[3]) == 1 and strip_ref(n[3][0])[0] == 'field' \
               and strip_ref(n[3][0])[2] == 're':
                return          # expression reading: the expression is handed over (no text is built, nothing can fail)
            if n[0] == 'mcall' and n[2] not in ('new', 'push', 'add', 'pc', 'build', 'len'):
                for (o, nm), s in self.sig.items():
                    if nm == n[2] and o is not None and s['fallible']:
                        found.append(n)
        walk(blk, f)
        return bool(found)

    # ---------------------------------------------------------------- expressions
    def arg(self, r):
        return r[0] if r[2] else '(' + r[0] + ')'

    def type_of_owner_field(self, owner, f, line):
        for fn, _, tag in STRUCTS.get(owner, []):
            if fn == f:
                if tag is None:
                    bad('field `%s` of %s is not modelled' % (f, owner), line)
                return tag
        bad('unknown field `%s` of %s' % (f, owner), line)

    def closure_pred(self, cl, c, elem_ty):
        if cl[0] != 'closure' or len(cl[1]) != 1 or cl[2][0] == 'blockexpr':
            bad('iterator adaptor argument that is not a one-parameter expression closure', cl[-1])
        cc = c.child()
        cc.vars[cl[1][0]] = elem_ty
        pre = Pre()
        r = self.ex(cl[2], cc, pre)
        if pre.items or r[1] != 'bool':
            bad('closure body must be a total boolean expression', cl[-1])
        return '(fun %s => %s)' % (lid(cl[1][0]), r[0])

    def ex(self, e, c, pre, want=None):
        """-> (Lean text, type tag, is_atom)"""
        k, line = e[0], e[-1]
        if k == 'int':
            return (str(e[1]), 'usize', True)
        if k == 'bool':
            return ('true' if e[1] else 'false', 'bool', True)
        if k in ('ref', 'refmut', 'paren', 'deref'):
            return self.ex(e[1], c, pre, want)
        if k == 'path':
            p = e[1]
            if len(p) == 1:
                x = p[0]
                if x in c.alias:
                    return self.ex(c.alias[x], c, pre, want)
                if x == 'self' and c.selfname:
                    return (c.selfname, c.selfty, True)
                if x in c.vars:
                    return ('' if c.vars[x] == 'Options' else lid(x), c.vars[x], True)
                if x in LOOK:
                    return ('Look' + LOOK[x], 'Look', True)
                if x == 'None':
                    return ('none', 'OptUsize', True)
                bad('unknown name `%s`' % x, line)
            if p == ['usize', 'MAX']:
                return ('USIZE_MAX', 'usize', True)
            if p[0] == 'Insn' and len(p) == 2:
                return self.insn(p[1], 'unit', [], c, pre, line)
            bad('path `%s`' % '::'.join(p), line)
        if k == 'unit':
            bad('`()` in expression position', line)
        if k == 'tuple':
            rs = [self.ex(x, c, pre) for x in e[1]]
            return ('(' + ', '.join(r[0] for r in rs) + ')', ('tuple', [r[1] for r in rs]), True)
        if k == 'not':
            r = self.ex(e[1], c, pre)
            if r[1] != 'bool':
                bad('`!` on a non-boolean', line)
            return ('(!%s)' % self.arg(r), 'bool', True)
        if k == 'bin':
            op = e[1]
            l = self.ex(e[2], c, pre)
            n0 = len(pre.items)
            r = self.ex(e[3], c, pre)
            if op in ('&&', '||') and len(pre.items) != n0:
                bad('operation that can panic on the right of `%s`' % op, line)
            if op in ('+', '*'):
                if l[1] != 'usize' or r[1] != 'usize':
                    bad('`%s` on non-usize operands' % op, line)
                return ('(%s %s %s)' % (self.arg(l), op, self.arg(r)), 'usize', True)
            if op == '-':
                if l[1] != 'usize' or r[1] != 'usize':
                    bad('`-` on non-usize operands', line)
                t = want if isinstance(want, str) and want.startswith('$') else None
                name = t[1:] if t else c.fresh()
                pre.items.append(('checkedSub %s %s' % (self.arg(l), self.arg(r)), 'sub', lid(name)))
                return (lid(name), 'usize', True)
            if op in ('==', '!='):
                if l[1] != r[1] or l[1] not in ('usize', 'bool', 'Look'):
                    bad('`%s` on operands of type %s / %s' % (op, l[1], r[1]), line)
                return ('(%s %s %s)' % (self.arg(l), op, self.arg(r)), 'bool', True)
            if op in ('<', '<=', '>', '>='):
                if l[1] != 'usize' or r[1] != 'usize':
                    bad('`%s` on non-usize operands' % op, line)
                return ('(decide (%s %s %s))' % (self.arg(l), {'<': '<', '<=': '≤', '>': '>', '>=': '≥'}[op], self.arg(r)), 'bool', True)
            if op in ('&&', '||', '|', '&'):
                if l[1] != 'bool' or r[1] != 'bool':
                    bad('`%s` on non-boolean operands' % op, line)
                return ('(%s %s %s)' % (self.arg(l), {'|': '||', '&': '&&'}.get(op, op), self.arg(r)), 'bool', True)
            bad('operator `%s`' % op, line)
        if k == 'field':
            r = self.ex(e[1], c, pre)
            f = e[2]
            if r[1] == 'Options':       # RegexOptions is not modelled: whatever is computed from it alone is opaque
                return ('', 'Options', True)
            if r[1] == 'Info':
                if f not in INFO_FIELDS:
                    bad('unknown field `%s` of Info' % f, line)
                return ('%s.%s' % (self.arg(r), INFO_FIELDS[f][0]), INFO_FIELDS[f][1], True)
            if r[1] in STRUCTS:
                return ('%s.%s' % (self.arg(r), f), self.type_of_owner_field(r[1], f, line), True)
            bad('field `%s` of a value of type %s' % (f, r[1]), line)
        if k == 'index':
            base = self.ex(e[1], c, pre)
            idx = e[2]
            if base[1] != 'Infos':
                bad('indexing a value of type %s' % base[1], line)
            if idx[0] == 'slice':
                lo = self.ex(idx[1], c, pre) if idx[1] is not None else None
                hi = self.ex(idx[2], c, pre) if idx[2] is not None else None
                if any(x is not None and x[1] != 'usize' for x in (lo, hi)):
                    bad('slice bound that is not usize', line)
                name = c.fresh()
                if lo is None:
                    call = 'sliceTo %s %s' % (self.arg(base), self.arg(hi))
                elif hi is None:
                    call = 'sliceFrom %s %s' % (self.arg(base), self.arg(lo))
                else:
                    call = 'sliceRange %s %s %s' % (self.arg(base), self.arg(lo), self.arg(hi))
                pre.items.append((call, 'slice', '⟨%s, _⟩' % name))
                return (name, 'Infos', True)
            i = self.ex(idx, c, pre)
            if i[1] != 'usize':
                bad('index that is not usize', line)
            name = want[1:] if isinstance(want, str) and want.startswith('$') else c.fresh()
            pre.items.append(('childAt %s %s' % (self.arg(base), self.arg(i)), 'index', '⟨%s, _⟩' % lid(name)))
            return (lid(name), 'Info', True)
        if k == 'call':
            return self.call(e, c, pre, want)
        if k == 'mcall':
            return self.mcall(e, c, pre, want)
        if k == 'struct':
            p = e[1]
            if p[0] == 'Insn' and len(p) == 2:
                return self.insn(p[1], 'struct', e[2], c, pre, line)
            owner = c.fn.owner if p == ['Self'] else p[0]
            if p == ['RegexOptions']:
                return ('', 'Options', True)
            if len(p) != 1 or owner not in STRUCTS:
                bad('struct literal `%s`' % '::'.join(p), line)
            given = {f: v for f, v, _ in e[2]}
            base = given.pop('..', None)
            if base is not None:        # struct update `S { f: v, ..base }` = `{ base with f := v }`
                b = self.ex(base, c, pre)
                if b[1] != owner or not set(given) <= {f for f, _, _ in STRUCTS[owner]}:
                    bad('struct update of `%s` from a value of type %s' % (owner, b[1]), line)
                ups = []
                for f, _, tag in STRUCTS[owner]:
                    if f in given and tag is not None:
                        r = self.ex(given[f], c, pre, want=tag)
                        if r[1] != tag:
                            bad('field `%s` of %s gets a value of type %s' % (f, owner, r[1]), line)
                        ups.append('%s := %s' % (f, self.arg(r)))
                bt = b[0] if re.fullmatch(r"[\w.«»']+", b[0]) else '(%s : %s)' % (b[0], self.lty(owner))
                return ('{ %s with %s }' % (bt, ', '.join(ups)) if ups else b[0], owner, True)
            if set(given) != {f for f, _, _ in STRUCTS[owner]}:
                bad('struct literal `%s` does not give every field exactly once' % owner, line)
            parts = []
            for f, _, tag in STRUCTS[owner]:
                if tag is None:
                    continue
                r = self.ex(given[f], c, pre, want=tag)
                if r[1] != tag:
                    bad('field `%s` of %s gets a value of type %s' % (f, owner, r[1]), line)
                parts.append('%s := %s' % (f, self.arg(r)))
            return ('{ ' + ', '.join(parts) + ' }', owner, True)
        if k == 'matches':      # `matches!(x, P | P)` as a boolean (patterns without bindings)
            sc = self.ex(strip_ref(e[1]), c, pre)
            if sc[1] == 'Expr':
                alts = []
                for p in e[2]:
                    cc = c.child()
                    lp = self.expr_pat(p, cc, [])[0]
                    if set(cc.vars) != set(c.vars):
                        bad('`matches!` pattern with a binding', line)
                    if lp == '_':
                        return ('true', 'bool', True)
                    alts.append(lp)
                return ('(match %s with%s | _ => false)' % (sc[0], ''.join(' | %s => true' % a for a in alts)), 'bool', True)
            if sc[1] == 'Look':
                alts = [LOOK[p[1][0]] for p in e[2] if p[0] == 'ppath' and len(p[1]) == 1 and p[1][0] in LOOK]
                if len(alts) != len(e[2]):
                    bad('`matches!` pattern on a LookAround', line)
                return ('(' + ' || '.join('(%s == Look%s)' % (self.arg(sc), a) for a in alts) + ')', 'bool', True)
            bad('`matches!` on a value of type %s' % (sc[1],), line)
        if k == 'str':
            bad('string literal', line)
        bad('expression `%s`' % k, line)

    def insn(self, v, shape, fields, c, pre, line):
        if v not in INSN_VARIANTS:
            bad('unknown instruction `Insn::%s`' % v, line)
        _, vshape, vfields, templ = INSN_VARIANTS[v]
        if vshape != shape:
            bad('`Insn::%s` used as a %s variant' % (v, shape), line)
        if self.text:       # only the two instructions `compile_delegate(s)` emit, with the text they carry
            if v == 'Lit' and shape == 'tuple' and len(fields) == 1:
                r = self.ex(fields[0], c, pre)
                if r[1] != 'String':
                    bad('`Insn::Lit` of a %s' % (r[1],), line)
                return ('TInsn.lit %s' % self.arg(r), 'Insn', False)
            if v == 'Delegate' and shape == 'struct':
                g = {f: x for f, x, _ in fields}
                if set(g) != {'inner', 'pattern', 'start_group', 'end_group'}:
                    bad('`Insn::Delegate { .. }` fields', line)
                rs = {f: self.ex(g[f], c, pre) for f in ('inner', 'pattern', 'start_group', 'end_group')}
                if (rs['inner'][1], rs['pattern'][1], rs['start_group'][1], rs['end_group'][1]) != ('String', 'String', 'usize', 'usize'):
                    bad('`Insn::Delegate { .. }` field types', line)
                return ('TInsn.delegate %s %s %s' % tuple(self.arg(rs[f]) for f in ('pattern', 'start_group', 'end_group')), 'Insn', False)
            bad('`Insn::%s` in the text reading' % v, line)
        ctor = 'Insn' + templ.split()[0]
        if shape == 'unit':
            return (ctor, 'Insn', True)
        vals = {}
        if shape == 'tuple':
            if len(fields) != len(vfields):
                bad('`Insn::%s` with %d arguments' % (v, len(fields)), line)
            for i, (a, ty) in enumerate(zip(fields, vfields)):
                vals[str(i)] = (self.ex(a, c, pre), ty)
        else:
            given = {f: x for f, x, _ in fields}
            if set(given) != {f for f, _ in vfields}:
                bad('`Insn::%s { .. }` does not give every field exactly once' % v, line)
            for f, ty in vfields:
                vals[f] = (self.ex(given[f], c, pre), ty)
        want = {'usize': 'usize', 'String': 'String', 'Assertion': 'Assertion', 'Regex': 'Exprs'}
        args = []
        for slot in re.findall(r'\{(\w+)\}', templ):
            r, ty = vals[slot]
            if r[1] != want.get(ty):
                bad('`Insn::%s`: field %s gets a value of type %s' % (v, slot, r[1]), line)
            a = self.arg(r)
            if (v, slot) in (('RepeatGr', 'hi'), ('RepeatNg', 'hi')):      # usize -> the model's Option Nat
                a = '(hiOpt %s)' % a
            args.append(a)
        for f, (r, ty) in vals.items():
            if (v, f) in rv.NO_MODEL_FIELD and r[1] not in ('String', 'Exprs'):
                bad('`Insn::%s`: field %s gets a value of type %s' % (v, f, r[1]), line)
        return (ctor + ''.join(' ' + a for a in args), 'Insn', False)

    def call(self, e, c, pre, want):
        p, args, line = e[1], e[2], e[-1]
        if p == ['Some'] and len(args) == 1:
            r = self.ex(args[0], c, pre)
            if r[1] != 'usize':
                bad('`Some` of a %s' % r[1], line)
            return ('some %s' % self.arg(r), 'OptUsize', False)
        if p in (['String', 'new'], ['Vec', 'new']) and not args:
            return ('[]', want if want in ('VecInsn', 'VecUsize', 'Exprs', 'String') else ('String' if p[0] == 'String' else 'VecUsize'), True)
        if p[0] == 'Insn' and len(p) == 2:
            return self.insn(p[1], 'tuple', args, c, pre, line)
        if p == ['Prog', 'new'] and len(args) == 2:
            a, b = self.ex(args[0], c, pre), self.ex(args[1], c, pre)
            if (a[1], b[1]) != ('VecInsn', 'usize'):
                bad('`Prog::new` arguments', line)
            return ('Prog.new %s %s' % (self.arg(a), self.arg(b)), 'Prog', False)
        if p == ['Default', 'default'] and not args:
            return ('', 'Options', True)
        if p == ['RegexOptions', 'default'] and not args:
            return ('', 'Options', True)
        owner = None
        if len(p) == 2:
            owner = c.fn.owner if p[0] == 'Self' else p[0]
            name = p[1]
        elif len(p) == 1:
            name = p[0]
        else:
            bad('call of `%s`' % '::'.join(p), line)
        if owner is None and name == 'compile_inner':
            if len(args) != 2:
                bad('`compile_inner` arguments', line)
            a = self.ex(args[0], c, pre)
            if self.text:
                if a[1] != 'String':
                    bad('`compile_inner` is given a %s' % a[1], line)
                return ('compile_inner_text %s' % self.arg(a), ('result', 'String'), False)
            if a[1] != 'Exprs':
                bad('`compile_inner` is given a %s' % a[1], line)
            return ('compile_inner %s' % self.arg(a), ('result', 'Exprs'), False)
        s = self.sig.get((owner, name))
        f = self.funcs.get((owner, name))
        if s is None or f.selfkind is not None:
            bad('call of `%s`' % '::'.join(p), line)
        if len(args) != len(f.params):
            bad('call of `%s` with %d arguments' % ('::'.join(p), len(args)), line)
        texts = []
        for a, (pn, pt, _) in zip(args, f.params):
            ty = rust_ty(pt)
            a = strip_ref(a)
            if ty == 'Options':
                if not (a[0] == 'mcall' and a[2] == 'clone' or a[0] in ('path', 'field', 'call')):
                    bad('options argument', line)
                continue
            r = self.ex(a, c, pre)
            if r[1] != ty:
                bad('argument `%s` of `%s` gets a value of type %s' % (pn, name, r[1]), line)
            texts.append(self.arg(r))
        fname = ((owner + ('Text' if self.text and owner == 'DelegateBuilder' else '')) + '.' if owner else '') + name
        rty = s['ret']
        if s['fallible']:
            rty = ('result', rty)
        return (fname + ''.join(' ' + t for t in texts), rty, not texts)

    def mcall(self, e, c, pre, want):
        recv, name, args, line = e[1], e[2], e[3], e[-1]
        # iterator chains on a list of Info
        chain = []
        x = e
        while x[0] == 'mcall' and x[2] in ('iter', 'rev', 'take_while', 'count', 'all'):
            chain.append(x)
            x = x[1]
        names = [y[2] for y in reversed(chain)]
        if names and names[0] == 'iter':
            base = self.ex(x, c, pre)
            if base[1] != 'Infos':
                bad('iterator over a value of type %s' % base[1], line)
            calls = list(reversed(chain))
            if names == ['iter', 'take_while', 'count']:
                return ('takeWhileCount %s %s' % (self.arg(base), self.closure_pred(calls[1][3][0], c, 'Info')), 'usize', False)
            if names == ['iter', 'rev', 'take_while', 'count']:
                return ('revTakeWhileCount %s %s' % (self.arg(base), self.closure_pred(calls[2][3][0], c, 'Info')), 'usize', False)
            if names == ['iter', 'all']:
                cl = calls[1][3][0]
                rec = self.recursive_all(cl, c)
                if rec is not None:
                    return ('%s %s' % (rec, self.arg(base)), 'bool', False)
                return ('allOf %s %s' % (self.arg(base), self.closure_pred(cl, c, 'Info')), 'bool', False)
            bad('iterator chain `.%s()`' % '().'.join(names), line)
        if name == 'clone' and not args:
            return self.ex(recv, c, pre, want)
        r = self.ex(recv, c, pre)
        ty = r[1]
        if ty == 'Options':
            return ('', 'Options', True)
        if ty in ('Infos', 'VecUsize', 'VecInsn', 'String') and name == 'len' and not args:
            return ('%s.length' % self.arg(r), 'usize', True)
        if ty in ('Infos', 'VecUsize') and name == 'is_empty' and not args:
            return ('%s.isEmpty' % self.arg(r), 'bool', True)
        if ty == 'OptUsize' and name == 'is_none' and not args:
            return ('%s.isNone' % self.arg(r), 'bool', True)
        if ty == 'OptUsize' and name == 'expect' and len(args) == 1 and args[0][0] == 'str':
            nm = want[1:] if isinstance(want, str) and want.startswith('$') else c.fresh()
            pre.items.append((r[0], args[0][1].strip('"'), lid(nm)))
            return (lid(nm), 'usize', True)
        if ty == 'usize' and name == 'saturating_add' and len(args) == 1:
            a = self.ex(args[0], c, pre)
            if a[1] != 'usize':
                bad('`saturating_add` argument', line)
            return ('(satAdd %s %s)' % (self.arg(r), self.arg(a)), 'usize', True)
        if ty == 'Info' and name == 'is_literal' and not args and ('Info', 'is_literal') in self.sig:
            return ('is_literal %s' % self.arg(r), 'bool', False)
        if ty == 'VMBuilder' and name == 'pc' and not args:
            return ('%s.pc' % self.arg(r), 'usize', True)
        if ty == 'VMBuilder' and name == 'build' and not args:
            return ('%s.build' % self.arg(r), 'Prog', True)
        if ty == 'DelegateBuilder' and name == 'push' and len(args) == 1:
            a = self.ex(args[0], c, pre)
            if a[1] != 'Info':
                bad('`DelegateBuilder::push` argument', line)
            if self.text:       # fallible (`to_str` can panic): bound first
                t = c.fresh()
                pre.items.append(('%s.push %s' % (self.arg(r), self.arg(a)), None, t))
                return (t, 'DelegateBuilder', True)
            return ('%s.push %s' % (self.arg(r), self.arg(a)), 'DelegateBuilder', False)
        if ty == 'DelegateBuilder' and name == 'build' and len(args) == 1:
            return ('%s.build' % self.arg(r), ('result', 'Insn'), True)
        bad('method `.%s()` on a value of type %s' % (name, ty), line)

    def recursive_all(self, cl, c):
        """`.all(|x| x.f())` where f is the function being defined: a generated list function"""
        if cl[0] == 'closure' and len(cl[1]) == 1 and cl[2][0] == 'mcall' and is_path(cl[2][1], cl[1][0]) and not cl[2][3] \
           and c.fn.owner == 'Info' and cl[2][2] == c.fn.name:
            name = '%s_all%d' % (c.fn.name, c.loops[0])
            c.loops[0] += 1
            text = ('/-- `.iter().all(|%s| %s.%s())` of `Info::%s` -/\n' % (cl[1][0], cl[1][0], c.fn.name, c.fn.name) +
                    'def %s (l : List GInfo) : Bool :=\n  match l with\n  | [] => true\n  | %s :: rest => (%s %s) && %s rest\n'
                    % (name, lid(cl[1][0]), c.fn.name, lid(cl[1][0]), name) +
                    'termination_by (sizeOf l, 0)\ndecreasing_by all_goals (simp_wf; ginfo_facts; omega)\n')
            self.extra.setdefault((c.fn.owner, c.fn.name), []).append(text)
            return name
        return None

    # ---------------------------------------------------------------- statements
    def lty(self, ty):
        if isinstance(ty, tuple) and ty[0] == 'tuple':
            return ' × '.join(self.lty(t) for t in ty[1])
        if ty not in LEAN_TY:
            bad('no Lean type for %s' % (ty,))
        return LEAN_TY[ty]

    def fin_lines(self, fin, c, ind, val):
        """end of a block: fin = ('vars', names, fallible) | ('ret', fallible, threads) | ('loop', call text)"""
        sp = ' ' * ind
        if fin[0] == 'vars':
            if val is not None:
                bad('block with a value where none is expected', c.fn.line)
            names = [c.selfname if n == 'self' else lid(n) for n in fin[1]]
            t = names[0] if len(names) == 1 else '(' + ', '.join(names) + ')'
            return [sp + ('.ok ' + t if fin[2] else t)]
        if fin[0] == 'ret':
            if val is None:
                bad('block without a value where one is expected', c.fn.line)
            t = val[0]
            if fin[2]:
                t = '(' + ', '.join([t] + [c.selfname if n == 'self' else lid(n) for n in fin[2]]) + ')'
                return [sp + ('.ok ' + t if fin[1] else t)]
            return [sp + ('.ok ' + self.arg(val) if fin[1] else t)]
        if fin[0] == 'loop':
            if val is not None:
                bad('loop body with a value', c.fn.line)
            return [sp + fin[1]]
        bad('internal: fin')

    def fin_is_self_result(self, fin, c):
        return fin[0] == 'vars' and fin[2] and fin[1] == ['self']

    def bind(self, text, fallible, pat, ty, ind, k):
        sp = ' ' * ind
        if fallible:
            return [sp + 'match %s with' % text, sp + '| .error err => .error err', sp + '| .ok %s =>' % pat] + k(ind + 2)
        return [sp + 'let %s : %s := %s' % (pat, ty, text)] + k(ind)

    def set_place(self, place, c, line):
        """place = variable or self.field -> (root name, root type, field or None, field type, current value text)"""
        place = strip_ref(place)
        if place[0] == 'path' and len(place[1]) == 1:
            x = place[1][0]
            if x == 'self' and c.selfname:
                return (c.selfname, c.selfty, None, c.selfty, c.selfname)
            if x in c.vars and x not in c.alias:
                return (lid(x), c.vars[x], None, c.vars[x], lid(x))
        if place[0] == 'field':
            r = self.set_place(place[1], c, line)
            if r[2] is None and r[1] in STRUCTS:
                fty = self.type_of_owner_field(r[1], place[2], line)
                return (r[0], r[1], place[2], fty, '%s.%s' % (r[0], place[2]))
        bad('assignment / mutation of something that is not a variable or a field of one', line)

    def update(self, place, newtext, fallible, c, ind, k):
        root, rty, f, fty, _ = place
        sp = ' ' * ind
        if f is None:
            return self.bind(newtext, fallible, root, self.lty(rty), ind, k)
        if fallible:
            return [sp + 'match %s with' % newtext, sp + '| .error err => .error err', sp + '| .ok %s =>' % f,
                    sp + '  let %s : %s := { %s with %s := %s }' % (root, self.lty(rty), root, f, f)] + k(ind + 2)
        return [sp + 'let %s : %s := { %s with %s := %s }' % (root, self.lty(rty), root, f, newtext)] + k(ind)

    def args_for(self, key, args, c, pre, line):
        f = self.funcs[key]
        if len(args) != len(f.params):
            bad('call of `%s` with %d arguments' % (f.name, len(args)), line)
        out, threads = [], []
        for a, (pn, pt, _) in zip(args, f.params):
            ty = rust_ty(pt)
            if ty == 'Options':
                continue
            if ty == 'Handler':
                out.append(self.closure_handler(a, c))
                continue
            if pn in self.sig[key]['threads']:
                pl = self.set_place(a, c, line)
                if pl[3] != ty:
                    bad('argument `%s` of `%s` gets a place of type %s' % (pn, f.name, pl[3]), line)
                threads.append(pl)
                out.append(pl[4])
                continue
            r = self.ex(strip_ref(a), c, pre)
            if r[1] != ty:
                bad('argument `%s` of `%s` gets a value of type %s' % (pn, f.name, r[1]), line)
            out.append(self.arg(r))
        return out, threads

    def closure_handler(self, cl, c):
        if cl[0] == 'path' and len(cl[1]) == 1 and c.vars.get(cl[1][0]) == 'Handler':
            return lid(cl[1][0])
        if cl[0] != 'closure' or len(cl[1]) != 2:
            bad('handler argument that is not a two-parameter closure', cl[-1])
        cc = c.child()
        cc.selfname, cc.selfty = lid(cl[1][0]), 'Compiler'
        cc.vars[cl[1][1]] = 'usize'
        body = cl[2][1] if cl[2][0] == 'blockexpr' else ([], cl[2])
        lines = self.seq(body[0], body[1], cc, 12, ('vars', ['self'], True))
        return '(fun %s %s =>\n%s)' % (lid(cl[1][0]), lid(cl[1][1]), '\n'.join(lines))

    def method_call(self, e, c, pre, line):
        """a call whose effect is on its receiver / `&mut` arguments -> (new value text, fallible, places) or None"""
        recv, name, args = e[1], e[2], e[3]
        r0 = strip_ref(recv)
        if self.text and name == 'add' and len(args) == 1 and r0[0] == 'field' and r0[2] == 'b' and is_path(strip_ref(r0[1]), 'self') \
           and c.selfty == 'Compiler':
            a = self.ex(args[0], c, pre)        # the builder's program, reduced to the instructions with their texts
            if a[1] != 'Insn':
                bad('`add` of a %s' % (a[1],), line)
            return ('(%s ++ [%s])' % (c.selfname, a[0]), False, [(c.selfname, 'Compiler', None, 'Compiler', c.selfname)])
        # methods of Compiler on the threaded self
        if r0[0] == 'path' and len(r0[1]) == 1 and (r0[1][0] == 'self' and c.selfty == 'Compiler' or c.vars.get(r0[1][0]) == 'Compiler' or
                                                  (c.selfty == 'Compiler' and lid(r0[1][0]) == c.selfname)):
            key = ('Compiler', name)
            if key not in self.sig or self.funcs[key].selfkind != 'mut':
                bad('method `%s` of Compiler' % name, line)
            pl = self.set_place(r0, c, line) if not (lid(r0[1][0]) == c.selfname) else (c.selfname, 'Compiler', None, 'Compiler', c.selfname)
            a, th = self.args_for(key, args, c, pre, line)
            self.note_call(c, key, args)
            return ('%s%s%s %s' % (name, '_text' if self.text else '', ''.join(' ' + x for x in a), pl[4]), self.sig[key]['fallible'], [pl])
        if r0[0] == 'path' and len(r0[1]) == 1 and c.vars.get(r0[1][0]) == 'Handler':
            bad('call through a method on a handler', line)
        rt = self.ex(r0, c, Pre())[1] if r0[0] in ('path', 'field') else None
        if rt == 'Info' and name == 'push_literal' and len(args) == 1 and not self.text:
            plx = self.set_place(args[0], c, line) if strip_ref(args[0])[0] in ('path', 'field') else None
            if plx is not None and plx[3] == 'Exprs':
                # writing a literal's text into the delegate text: in the expression reading the expression is handed over
                rr = self.ex(r0, c, pre)
                return ('(to_str_push %s %s.expr)' % (plx[4], self.arg(rr)), False, [plx])
        if rt == 'Info' and ('Info', name) in self.sig and self.sig[('Info', name)]['threads']:
            key = ('Info', name)
            rr = self.ex(r0, c, pre)
            a, th = self.args_for(key, args, c, pre, line)
            self.note_call(c, key, [recv])
            return ('%s %s%s' % (name, self.arg(rr), ''.join(' ' + x for x in a)), self.sig[key]['fallible'], th)
        if rt == 'Expr' and name == 'to_str' and len(args) == 2 and args[1][0] == 'int':
            pl = self.set_place(args[0], c, line)
            rr = self.ex(r0, c, pre)
            if self.text:
                if pl[3] != 'String':
                    bad('`to_str` into something that is not a `String`', line)
                return ('to_str_text %s %s %d' % (self.arg(rr), pl[4], args[1][1]), True, [pl])
            if pl[3] != 'Exprs':
                bad('`to_str` into something that is not the delegate text', line)
            return ('(to_str_push %s %s)' % (pl[4], self.arg(rr)), False, [pl])
        if rt in ('VMBuilder', 'DelegateBuilder', 'VecInsn', 'VecUsize', 'String'):
            pl = self.set_place(r0, c, line)
            if rt in ('VecInsn', 'VecUsize') and name == 'push' and len(args) == 1:
                a = self.ex(args[0], c, pre)
                if a[1] != {'VecInsn': 'Insn', 'VecUsize': 'usize'}[rt]:
                    bad('`push` of a %s' % a[1], line)
                return ('(%s ++ [%s])' % (pl[4], a[0]), False, [pl])
            if rt == 'String' and name == 'push_str' and len(args) == 1:
                a = self.ex(strip_ref(args[0]), c, pre)
                if a[1] != 'String':
                    bad('`push_str` of a %s' % a[1], line)
                return ('(%s ++ %s)' % (pl[4], self.arg(a)), False, [pl])
            key = (rt, name)
            if key in self.sig and self.funcs[key].selfkind == 'mut':
                a, th = self.args_for(key, args, c, pre, line)
                return ('%s.%s%s' % (pl[4], name, ''.join(' ' + x for x in a)), self.sig[key]['fallible'], [pl])
        return None

    def note_call(self, c, key, args):
        same = False
        ip = c.__dict__.get('info_param')
        for a in args:
            a = strip_ref(a)
            if ip and is_path(a, ip):
                same = True
        self.calls.setdefault((c.fn.owner, c.fn.name), set()).add((key, same))

    def assigned(self, blk, c):
        """names of the variables of the enclosing scope that the block assigns, `self` first, then in declaration order"""
        names, local = [], set()

        def root(e):
            e = strip_ref(e)
            while e[0] == 'field':
                e = strip_ref(e[1])
            if e[0] == 'path' and len(e[1]) == 1:
                x = e[1][0]
                if x == 'self' or (c.selfname and lid(x) == c.selfname):
                    return 'self'
                return x
            return None

        def add(x):
            if x is not None and x not in local and x not in names and (x == 'self' or x in c.vars):
                names.append(x)

        def stm(s):
            if s[0] == 'let':
                walk(s[4], expr)
                for b in ([s[1]] if s[1][0] == 'bind' else s[1][1]):
                    if b[0] == 'bind':
                        local.add(b[1])
            elif s[0] == 'assign':
                add(root(s[1]))
                walk(s[3], expr)
            elif s[0] in ('expr', 'return'):
                walk(s[1], expr)
            elif s[0] == 'for':
                for x in s[3][0]:
                    stm(x)
            elif s[0] in ('if', 'match'):
                walk(s, expr)

        def expr(n):
            if n[0] == 'closure':
                return
            if n[0] == 'call' and len(n[1]) == 1 and c.vars.get(n[1][0]) == 'Handler':
                add('self')
            if n[0] == 'mcall':
                r = strip_ref(n[1])
                rn = root(r)
                if n[2] in ('push', 'push_str', 'add', 'newsave') or n[2].startswith('set_') or \
                   (rn == 'self' and r[0] == 'path' and ('Compiler', n[2]) in self.sig and c.selfty == 'Compiler') or \
                   (r[0] == 'path' and c.vars.get(r[1][0]) == 'Compiler'):
                    add(rn)
                for a in n[3]:
                    if a[0] == 'refmut':
                        add(root(a))
                for (o, nm), sg in self.sig.items():
                    if nm == n[2] and sg['threads'] and o is not None and len(n[3]) == len(self.funcs[(o, nm)].params):
                        for a, (pn, _, _) in zip(n[3], self.funcs[(o, nm)].params):
                            if pn in sg['threads']:
                                add(root(a))
            if n[0] in ('if',):
                for x in n[3][0] + (n[4][0] if n[4] else []):
                    stm(x)
            if n[0] == 'match':
                for a in n[2]:
                    for x in a[2][0]:
                        stm(x)
        for s in blk[0]:
            stm(s)
        if blk[1] is not None:
            walk(blk[1], expr)
        order = ['self'] + list(c.vars)
        return sorted(names, key=lambda x: order.index(x) if x in order else 999)

    def var_types(self, names, c):
        return [c.selfty if n == 'self' else c.vars[n] for n in names]

    def ends_with_return(self, blk):
        return blk[1] is None and blk[0] and blk[0][-1][0] == 'return'

    def seq(self, stmts, tail, c, ind, fin):
        if not stmts:
            if tail is None:
                return self.fin_lines(fin, c, ind, None)
            return self.tailx(tail, c, ind, fin)
        s, rest = stmts[0], stmts[1:]
        k = lambda i: self.seq(rest, tail, c, i, fin)
        last = not rest and tail is None
        line = s[-1]
        sp = ' ' * ind
        if s[0] == 'return':
            if rest or tail is not None:
                bad('statements after `return`', line)
            return self.tailx(s[1], c, ind, fin, returning=True)
        if s[0] == 'let':
            return self.let(s, c, ind, k)
        if s[0] == 'assign':
            pre = Pre()
            pl = self.set_place(s[1], c, line)
            r = self.ex(s[3], c, pre, want=pl[3])
            if r[1] != pl[3]:
                bad('assignment of a %s to a %s' % (r[1], pl[3]), line)
            new = {'=': r[0], '+=': '(%s + %s)' % (pl[4], self.arg(r)), '&=': '(%s && %s)' % (pl[4], self.arg(r)),
                   '|=': '(%s || %s)' % (pl[4], self.arg(r))}[s[2]]
            return pre.wrap(ind, lambda i: self.update(pl, new, False, c, i, k))
        if s[0] == 'expr':
            e = s[1]
            isq = e[0] == 'try'
            if isq:
                e = e[1]
            if e[0] == 'panic':
                return [sp + '.error (.panic %s)' % e[1]]
            if e[0] == 'call' and len(e[1]) == 1 and c.vars.get(e[1][0]) == 'Handler' and isq and len(e[2]) == 2 and \
               is_path(strip_ref(e[2][0]), 'self') and c.selfty == 'Compiler':
                pre = Pre()
                i_ = self.ex(e[2][1], c, pre)
                if i_[1] != 'usize':
                    bad('handler index', line)
                pl = (c.selfname, 'Compiler', None, 'Compiler', c.selfname)
                return pre.wrap(ind, lambda i: self.update(pl, '%s %s %s' % (lid(e[1][0]), c.selfname, self.arg(i_)), True, c, i, k))
            if e[0] == 'mcall':
                pre = Pre()
                m = self.method_call(e, c, pre, line)
                if m is None:
                    bad('statement `.%s(..)`' % e[2], line)
                text, fallible, places = m
                if isq != (fallible and self.is_result_method(e, c)):
                    bad('`?` does not fit the callee of `.%s(..)`' % e[2], line)
                if len(places) != 1:
                    bad('call with %d mutated places' % len(places), line)
                return pre.wrap(ind, lambda i: self.update(places[0], text, fallible, c, i, k))
            bad('expression statement', line)
        if s[0] == 'for':
            return self.for_(s, c, ind, k)
        if s[0] in ('if', 'match'):
            if s[0] == 'if' and s[4] is None and self.ends_with_return(s[3]):
                if s[1] is not None:
                    bad('`if let` with an early return', line)
                pre = Pre()
                cond = self.ex(s[2], c, pre)
                if pre.items or cond[1] != 'bool':
                    bad('condition that is not a total boolean expression', line)
                return [sp + 'if %s then' % cond[0]] + self.seq(s[3][0], None, c.child(), ind + 2, fin) + [sp + 'else'] + k(ind + 2)
            if last and fin[0] != 'loop':
                return self.tailx(s, c, ind, fin)
            return self.join(s, c, ind, k)
        bad('statement `%s`' % s[0], line)

    def is_result_method(self, e, c):
        r0 = strip_ref(e[1])
        rt = None
        for owner in ('Compiler', 'VMBuilder', 'DelegateBuilder', 'Info'):
            if (owner, e[2]) in self.funcs and self.funcs[(owner, e[2])].ret.replace(' ', '').startswith('Result<'):
                if owner == 'Compiler' or owner == 'DelegateBuilder' and e[2] == 'build':
                    rt = owner
        return rt is not None

    def let(self, s, c, ind, k):
        pat, e, line = s[1], s[4], s[-1]
        sp = ' ' * ind
        pre = Pre()
        if pat[0] == 'ptuple':
            names = [lid(b[1]) if b[0] == 'bind' else '_' for b in pat[1]]
            if e[0] == 'if' and e[1] is None and e[4] is not None and not e[3][0] and not e[4][0]:
                cond = self.ex(e[2], c, pre)
                a, b = self.ex(e[3][1], c, pre), self.ex(e[4][1], c, pre)
                if pre.items or a[1] != b[1] or cond[1] != 'bool' or a[1][0] != 'tuple' or len(a[1][1]) != len(names):
                    bad('tuple `let` from an `if` whose branches are not total tuples of one type', line)
                for b_, t in zip(pat[1], a[1][1]):
                    if b_[0] == 'bind':
                        c.vars[b_[1]] = t
                return [sp + 'let (%s) : %s := if %s then %s else %s' % (', '.join(names), self.lty(a[1]), cond[0], a[0], b[0])] + k(ind)
            bad('tuple `let` from something else than `if c { (..) } else { (..) }`', line)
        x = pat[1]
        inner = strip_ref(e)
        if e[0] in ('ref',) and inner[0] == 'field':
            r = self.ex(inner, c, Pre())
            if r[1] == 'Infos':
                c.alias[x] = inner
                c.vars[x] = 'Infos'
                return k(ind)
        if inner[0] == 'mcall' and inner[2] == 'newsave' and not inner[3]:
            pl = self.set_place(inner[1], c, line)
            if pl[3] != 'VMBuilder' or pl[2] is None:
                bad('`newsave` on something that is not a VMBuilder field', line)
            c.vars[x] = 'usize'
            return [sp + 'let (%s, %s) : Nat × VMBuilder := %s.newsave' % (lid(x), pl[2], pl[4]),
                    sp + 'let %s : %s := { %s with %s := %s }' % (pl[0], self.lty(pl[1]), pl[0], pl[2], pl[2])] + k(ind)
        if e[0] == 'if':
            return self.value_join(x, e, c, ind, k)
        istry = e[0] == 'try'
        if istry:
            e = e[1]
        r = self.ex(e, c, pre, want='$' + x)
        ty = r[1]
        if isinstance(ty, tuple) and ty[0] == 'result':
            if not istry:
                bad('`Result` value bound without `?`', line)
            c.vars[x] = ty[1]
            return pre.wrap(ind, lambda i: self.bind(r[0], True, lid(x), None, i, k))
        if istry:
            bad('`?` on a value that is not a `Result`', line)
        if s[3] is not None and rust_ty(s[3]) not in (ty, None):
            bad('`let %s: %s` gets a value of type %s' % (x, s[3], ty), line)
        c.vars[x] = ty
        c.alias.pop(x, None)
        if ty == 'Options':
            return k(ind)
        if r[0] == lid(x) and pre.items:
            return pre.wrap(ind, k)
        return pre.wrap(ind, lambda i: [' ' * i + 'let %s : %s := %s' % (lid(x), self.lty(ty), r[0])] + k(i))

    def value_block(self, blk, c, ind, fallible):
        """a block used for its value: `.ok (v)` / `v` at the end; a final `e?` is `e` itself"""
        stmts, tail = blk
        if tail is None:
            bad('block without a value', c.fn.line)
        holder = {}
        if tail[0] == 'if':
            bad('nested value `if`', tail[-1])

        def end(cc, i):
            pre = Pre()
            t = tail
            if fallible and t[0] == 'try':
                r = self.ex(t[1], cc, pre)
                if not (isinstance(r[1], tuple) and r[1][0] == 'result'):
                    bad('`?` on a value that is not a `Result`', t[-1])
                holder['ty'] = r[1][1]
                return pre.wrap(i, lambda j: [' ' * j + r[0]])
            r = self.ex(t, cc, pre)
            holder['ty'] = r[1]
            return pre.wrap(i, lambda j: [' ' * j + ('.ok ' + self.arg(r) if fallible else r[0])])
        cc = c.child()
        lines = self.seq_with_end(stmts, cc, ind, end)
        return lines, holder['ty']

    def seq_with_end(self, stmts, c, ind, end):
        if not stmts:
            return end(c, ind)
        fin = ('custom', end)
        s, rest = stmts[0], stmts[1:]
        k = lambda i: self.seq_with_end(rest, c, i, end)
        if s[0] == 'let':
            return self.let(s, c, ind, k)
        if s[0] == 'expr' and strip_ref(s[1])[0] in ('mcall', 'try'):
            e = s[1][1] if s[1][0] == 'try' else s[1]
            pre = Pre()
            m = self.method_call(e, c, pre, s[-1])
            if m is None or len(m[2]) != 1:
                bad('statement in a value block', s[-1])
            return pre.wrap(ind, lambda i: self.update(m[2][0], m[0], m[1], c, i, k))
        bad('statement `%s` in a value block' % s[0], s[-1])

    def value_join(self, x, e, c, ind, k):
        line = e[-1]
        if e[1] is not None or e[4] is None:
            bad('value `if` without `else` / with `let`', line)
        fallible = self.can_fail(e[3]) or self.can_fail(e[4])
        pre = Pre()
        cond = self.ex(e[2], c, pre)
        if pre.items or cond[1] != 'bool':
            bad('condition that is not a total boolean expression', line)
        a, ta = self.value_block(e[3], c, ind + 4, fallible)
        b, tb = self.value_block(e[4], c, ind + 4, fallible)
        if ta != tb:
            bad('`if` branches of types %s / %s' % (ta, tb), line)
        c.vars[x] = ta
        sp = ' ' * ind
        if fallible:
            lines = [sp + 'match ((if %s then' % cond[0]] + a + [sp + '  else'] + b
            lines[-1] += ') : Except CErr %s) with' % self.lty(ta)
            return lines + [sp + '| .error err => .error err', sp + '| .ok %s =>' % lid(x)] + k(ind + 2)
        return [sp + 'let %s : %s :=' % (lid(x), self.lty(ta)), sp + '  if %s then' % cond[0]] + a + [sp + '  else'] + b + k(ind)

    # ---- `if` / `match` whose branches assign variables: the assigned variables are returned from the branches
    def join(self, s, c, ind, k):
        names = self.assigned(([s], None), c)
        if not names:
            bad('`%s` statement without effect' % s[0], s[-1])
        fallible = self.can_fail(([s], None))
        tys = self.var_types(names, c)
        fin = ('vars', names, fallible)
        body = self.tailx(s, c.child(), ind + 2 + (2 if fallible else 0), fin)
        lnames = [c.selfname if n == 'self' else lid(n) for n in names]
        pat = lnames[0] if len(names) == 1 else '(' + ', '.join(lnames) + ')'
        lty = ' × '.join(self.lty(t) for t in tys)
        sp = ' ' * ind
        if fallible:
            body[0] = sp + 'match ((' + body[0].lstrip()
            body[-1] += ') : Except CErr %s) with' % (lty if len(names) == 1 else '(' + lty + ')')
            return body + [sp + '| .error err => .error err', sp + '| .ok %s =>' % pat] + k(ind + 2)
        return [sp + 'let %s : %s :=' % (pat, lty)] + body + k(ind)

    # ---- tail positions
    def tailx(self, e, c, ind, fin, returning=False):
        sp = ' ' * ind
        line = e[-1]
        if e[0] == 'call' and e[1] == ['Ok'] and len(e[2]) == 1:
            if e[2][0][0] == 'unit':
                return self.fin_lines(fin, c, ind, None)
            pre = Pre()
            r = self.ex(e[2][0], c, pre)
            return pre.wrap(ind, lambda i: self.fin_lines(fin, c, i, r))
        if e[0] == 'call' and e[1] == ['Err'] and len(e[2]) == 1:
            x = e[2][0]
            if x[0] == 'call' and x[1] == ['Error', 'CompileError'] and len(x[2]) == 1:
                y = x[2][0]
                p = y[1] if y[0] in ('call', 'path') else None
                if p and p[0] == 'CompileError' and len(p) == 2 and p[1] in ra.COMPILE_ERRORS:
                    return [sp + '.error (.compile .%s)' % ra.COMPILE_ERRORS[p[1]]]
            bad('`Err(..)` of something else than `Error::CompileError(CompileError::X(..))`', line)
        if e[0] == 'panic':
            return [sp + '.error (.panic %s)' % e[1]]
        if e[0] == 'unit':
            return self.fin_lines(fin, c, ind, None)
        if e[0] == 'if':
            if e[1] is not None:
                return self.iflet(e, c, ind, fin)
            pre = Pre()
            cond = self.ex(e[2], c, pre)
            if pre.items or cond[1] != 'bool':
                bad('condition that is not a total boolean expression', line)
            th = self.seq(e[3][0], e[3][1], c.child(), ind + 2, fin)
            if e[4] is None:
                el = self.fin_lines(fin, c, ind + 2, None)
            else:
                el = self.seq(e[4][0], e[4][1], c.child(), ind + 2, fin)
            return [sp + 'if %s then' % cond[0]] + th + [sp + 'else'] + el
        if e[0] == 'match':
            return self.match_(e, c, ind, fin)
        if e[0] == 'path' and e[1] == ['self'] and fin[0] == 'vars' and fin[1] == ['self']:
            return self.fin_lines(fin, c, ind, None)
        if e[0] == 'mcall':
            pre = Pre()
            m = self.method_call(e, c, pre, line)
            if m is not None:
                text, fallible, places = m
                if fallible and len(places) == 1 and places[0][2] is None and self.fin_is_self_result(fin, c) and places[0][0] == c.selfname:
                    return pre.wrap(ind, lambda i: [' ' * i + text])
                if len(places) == 1:
                    return pre.wrap(ind, lambda i: self.update(places[0], text, fallible, c, i, lambda j: self.fin_lines(fin, c, j, None)))
                bad('tail call `.%s(..)`' % e[2], line)
        if e[0] == 'try' and fin[0] == 'ret' and fin[1] and not fin[2]:
            pre = Pre()
            r = self.ex(e[1], c, pre)
            if isinstance(r[1], tuple) and r[1][0] == 'result':
                return pre.wrap(ind, lambda i: [' ' * i + r[0]])
        pre = Pre()
        r = self.ex(e, c, pre)
        if isinstance(r[1], tuple) and r[1][0] == 'result':
            if fin[0] == 'ret' and fin[1] and not fin[2]:
                return pre.wrap(ind, lambda i: [' ' * i + r[0]])
            bad('`Result` value in a position that does not return it', line)
        return pre.wrap(ind, lambda i: self.fin_lines(fin, c, i, r))

    def iflet(self, e, c, ind, fin):
        pat, line = e[1], e[-1]
        sp = ' ' * ind
        if pat[0] != 'pstructv' or pat[1] != ['Info'] or not pat[3] or e[4] is None:
            bad('`if let` other than `if let Info { f: pat, .., .. } = x { .. } else { .. }`', line)
        pre = Pre()
        x = self.ex(e[2], c, pre)
        if pre.items or x[1] != 'Info':
            bad('`if let Info { .. }` on a value of type %s' % (x[1],), line)
        scr, pats = [], []
        cc = c.child()
        for f, p in pat[2]:
            if f not in INFO_FIELDS:
                bad('unknown field `%s` of Info' % f, line)
            scr.append('%s.%s' % (self.arg(x), INFO_FIELDS[f][0]))
            if p[0] == 'plit' and INFO_FIELDS[f][1] == 'bool':
                pats.append('true' if p[1] else 'false')
            elif p[0] in ('ptuplev', 'pstructv', 'ppath') and p[1][0] == 'Expr' and INFO_FIELDS[f][1] == 'Expr':
                pats.append(self.expr_pat(p, cc, [])[0])
            else:
                bad('field pattern of `%s` in `if let Info { .. }`' % f, line)
        th = self.seq(e[3][0], e[3][1], cc, ind + 2, fin)
        el = self.seq(e[4][0], e[4][1], c.child(), ind + 2, fin)
        return [sp + 'match %s with' % ', '.join(scr), sp + '| %s =>' % ', '.join(pats)] + th + \
               [sp + '| %s =>' % ', '.join('_' for _ in pats)] + el

    def expr_pat(self, p, c, lets):
        """Rust pattern on `Expr` -> (Lean pattern, variant); binders are declared in c, adaptor `let`s appended to lets"""
        line = p[-1]
        if p[0] == 'wild':
            return ('_', None)
        if p[1][0] != 'Expr' or len(p[1]) != 2 or p[1][1] not in EXPR_VARIANTS:
            bad('pattern `%s`' % '::'.join(p[1]), line)
        v, shape, fields, templ = EXPR_VARIANTS[p[1][1]]
        given = {}
        if p[0] == 'ppath':
            if shape != 'unit':
                bad('`Expr::%s` used as a unit pattern' % v, line)
        elif p[0] == 'ptuplev':
            if shape != 'tuple' or (len(p[2]) != len(fields) and not p[3]) or len(p[2]) > len(fields):
                bad('`Expr::%s(..)` pattern' % v, line)
            for i, sub in enumerate(p[2]):
                given[str(i)] = (sub, fields[i])
        else:
            if shape != 'struct':
                bad('`Expr::%s { .. }` pattern' % v, line)
            fd = dict(fields)
            for f, sub in p[2]:
                if f not in fd:
                    bad('unknown field `%s` of `Expr::%s`' % (f, v), line)
                given[f] = (sub, fd[f])
            if len(p[2]) != len(fields) and not p[3]:
                bad('`Expr::%s { .. }` pattern does not mention every field' % v, line)
        parts = templ.split()
        out = [parts[0]]
        for slot in parts[1:]:
            m = re.fullmatch(r'\{(\w+)\}', slot)
            if not m or m.group(1) not in given:
                out.append('_')
                continue
            sub, fty = given[m.group(1)]
            tag = ra.tag_of(fty) if fty != 'Vec<Expr>' else 'Exprs'
            tag = {'str': 'String', 'Vec<Expr>': 'Exprs'}.get(tag, tag)
            if sub[0] == 'wild':
                out.append('_')
            elif sub[0] == 'plit' and tag == 'bool':
                out.append('true' if sub[1] else 'false')
            elif sub[0] == 'bind':
                name = sub[1]
                if (v, m.group(1)) in ra.FIELD_ADAPTORS:
                    out.append(lid(name) + '_m')
                    lets.append('let %s : Nat := %s %s_m' % (lid(name), ra.FIELD_ADAPTORS[(v, m.group(1))], lid(name)))
                    c.vars[name] = 'usize'
                else:
                    out.append(lid(name))
                    c.vars[name] = {'LookAround': 'Look'}.get(tag, tag)
                c.alias.pop(name, None)
            else:
                bad('sub-pattern in `Expr::%s`' % v, line)
        return (' '.join(out), v)

    def match_(self, e, c, ind, fin):
        scrut, arms, line = e[1], e[2], e[-1]
        sp = ' ' * ind
        s0 = strip_ref(scrut)
        if s0[0] == 'index' and s0[2][0] != 'slice':
            return self.patch_match(s0, arms, c, ind, fin, line)
        pre = Pre()
        r = self.ex(s0, c, pre)
        if pre.items:
            bad('match on a value that can panic', line)
        out = [sp + 'match %s with' % r[0]]
        for pats, guard, body, aline in arms:
            if guard is not None:
                bad('match guard', aline)
            for p in pats:
                cc = c.child()
                lets = []
                if r[1] == 'Expr':
                    lp = self.expr_pat(p, cc, lets)[0]
                elif r[1] == 'Look':
                    if p[0] == 'wild':
                        lp = '_'
                    elif p[0] == 'ppath' and len(p[1]) == 1 and p[1][0] in LOOK:
                        lp = LOOK[p[1][0]]
                    else:
                        bad('pattern on a LookAround', aline)
                else:
                    bad('match on a value of type %s' % (r[1],), line)
                out.append(sp + '| %s =>' % lp)
                out += [sp + '  ' + l for l in lets]
                out += self.seq(body[0], body[1], cc, ind + 2, fin)
        return out

    def patch_match(self, s0, arms, c, ind, fin, line):
        """`match self.prog[i] { Insn::V(.., ref mut y) [if g] => *y = e, .., _ => panic!(..) }`"""
        sp = ' ' * ind
        if not self.fin_is_self_result(fin, c):
            bad('in-place update of an instruction in a position that is not the end of a fallible `&mut self` method', line)
        pl = self.set_place(s0[1], c, line)
        pre = Pre()
        idx = self.ex(s0[2], c, pre)
        if pre.items or idx[1] != 'usize' or pl[3] != 'VecInsn':
            bad('`match v[i]` on something else than the instruction vector', line)
        groups, order, wild = {}, [], None
        for pats, guard, body, aline in arms:
            for p in pats:
                if p[0] == 'wild':
                    if guard is not None or body[0] or body[1] is None or body[1][0] != 'panic':
                        bad('`_` arm that is not `panic!("..")`', aline)
                    wild = body[1][1]
                    continue
                if p[0] not in ('ptuplev', 'pstructv') or p[1][0] != 'Insn' or p[1][1] not in INSN_VARIANTS:
                    bad('pattern on an instruction', aline)
                v, shape, fields, templ = INSN_VARIANTS[p[1][1]]
                slots = re.findall(r'\{(\w+)\}', templ)
                binds = {}
                items = [(str(i), x) for i, x in enumerate(p[2])] if p[0] == 'ptuplev' else p[2]
                for f, sub in items:
                    if sub[0] == 'bind':
                        if not sub[2]:
                            bad('binding that is not `ref mut`', aline)
                        binds[sub[1]] = f
                    elif sub[0] != 'wild':
                        bad('sub-pattern on an instruction', aline)
                if len(body[0]) != 1 or body[1] is not None or body[0][0][0] != 'assign' or body[0][0][2] != '=' or \
                   body[0][0][1][0] != 'deref' or not (body[0][0][1][1][0] == 'path' and body[0][0][1][1][1][0] in binds):
                    bad('arm body that is not `*field = value`', aline)
                tgt = binds[body[0][0][1][1][1][0]]
                if tgt not in slots:
                    bad('field `%s` has no counterpart in the model' % tgt, aline)
                val = self.ex(body[0][0][3], c, Pre())
                g = None
                if guard is not None:
                    gr = self.ex(guard, c, Pre())
                    if gr[1] != 'bool':
                        bad('guard that is not boolean', aline)
                    g = gr[0]
                ctor = templ.split()[0]
                new = ctor + ''.join(' ' + (self.arg(val) if s_ == tgt else 'f%d' % i) for i, s_ in enumerate(slots))
                if v not in groups:
                    groups[v] = (ctor, len(slots), [])
                    order.append(v)
                groups[v][2].append((g, new))
        if wild is None:
            bad('`match v[i]` without a `_ => panic!(..)` arm', line)
        out = [sp + 'match %s[%s]? with' % (pl[4], idx[0]), sp + '| none => .error (.panic "index")']
        for v in order:
            ctor, n, alts = groups[v]
            out.append(sp + '| some (%s%s) =>' % (ctor, ''.join(' f%d' % i for i in range(n))))
            i2 = ind + 2
            closed = False
            for g, new in alts:
                upd = '.ok { %s with %s := %s.set %s (%s) }' % (pl[0], pl[2], pl[4], idx[0], new)
                if g is None:
                    out.append(' ' * i2 + upd)
                    closed = True
                    break
                out += [' ' * i2 + 'if %s then' % g, ' ' * (i2 + 2) + upd, ' ' * i2 + 'else']
                i2 += 2
            if not closed:
                out.append(' ' * i2 + '.error (.panic %s)' % wild)
        out.append(sp + '| some _ => .error (.panic %s)' % wild)
        return out

    # ---- `for` loops: one definition each
    def for_(self, s, c, ind, k):
        var, it, blk, line = s[1], s[2], s[3], s[-1]
        key = (c.fn.owner, c.fn.name)
        base = c.__dict__.get('defname', c.fn.name)
        name = '%s_loop%d' % (base, c.loops[0])
        c.loops[0] += 1
        names = self.assigned(blk, c)
        if not names:
            bad('`for` loop without effect', line)
        tys = self.var_types(names, c)
        fallible = self.can_fail(blk)
        used = []
        walk(blk, lambda n: used.append(n[1][0]) if n[0] in ('path', 'call') and len(n[1]) == 1 else None)
        is_range = it[0] == 'range'
        pre = Pre()
        if is_range:
            walk(it, lambda n: used.append(n[1][0]) if n[0] == 'path' and len(n[1]) == 1 else None)
            lo, hi = self.ex(it[1], c, pre), self.ex(it[2], c, pre)
            if pre.items or lo[1] != 'usize' or hi[1] != 'usize':
                bad('range bounds', line)
            elem = 'usize'
        else:
            src = strip_ref(it)
            if src[0] == 'mcall' and src[2] == 'iter' and not src[3]:
                src = strip_ref(src[1])
            lst = self.ex(src, c, pre)
            elem = {'Infos': 'Info', 'VecUsize': 'usize'}.get(lst[1])
            if elem is None:
                bad('`for` over a value of type %s' % (lst[1],), line)
        real = lambda x: x in c.vars and x not in c.alias
        caps = [x for x in c.vars if x in used and real(x) and x not in names and x != var]
        for x in list(c.alias):
            if x in used:
                walk(c.alias[x], lambda n: caps.append(n[1][0]) if n[0] == 'path' and len(n[1]) == 1 and real(n[1][0]) and n[1][0] not in caps and n[1][0] not in names else None)
        caps = [x for x in caps if c.vars[x] == 'Handler'] + [x for x in caps if c.vars[x] != 'Handler']
        lnames = [c.selfname if n == 'self' else lid(n) for n in names]
        tup = lnames[0] if len(names) == 1 else '(' + ', '.join(lnames) + ')'
        ltys = [self.lty(t) for t in tys]
        rty = ltys[0] if len(names) == 1 else '(' + ' × '.join(ltys) + ')'
        if fallible:
            rty = 'Except CErr ' + ('(%s)' % rty if ' ' in rty and not rty.startswith('(') else rty)
        exitv = ('.ok ' if fallible else '') + tup
        capp = ''.join(' (%s : %s)' % (lid(x), self.lty(c.vars[x])) for x in caps)
        capa = ''.join(' ' + lid(x) for x in caps)
        cc = c.child()
        cc.vars[var] = elem
        cc.alias.pop(var, None)
        if c.mutual and not is_range:
            rec = '%s%s rest %s' % (name, capa, ' '.join(lnames))
            body = self.seq(blk[0], blk[1], cc, 4, ('loop', rec))
            text = ['/-- a `for` loop of `%s` -/' % self.rust_name(c.fn),
                    'def %s%s (l : List %s)%s : %s :=' % (name, capp, self.lty(elem), ''.join(' (%s : %s)' % (n, t) for n, t in zip(lnames, ltys)), rty),
                    '  match l with', '  | [] => %s' % exitv, '  | %s :: rest =>' % lid(var)] + body + \
                   ['termination_by (sizeOf l, 0)', 'decreasing_by all_goals (simp_wf; ginfo_facts; omega)']
            call = '%s%s %s %s' % (name, capa, self.arg(lst), ' '.join(lnames))
        elif not is_range:
            rec = '%s%s rest %s' % (name, capa, ' '.join(lnames))
            body = self.seq(blk[0], blk[1], cc, 4, ('loop', rec))
            text = ['/-- a `for` loop of `%s` -/' % self.rust_name(c.fn),
                    'def %s%s : List %s → %s → %s' % (name, capp, self.lty(elem), ' → '.join(ltys), rty),
                    '  | [], %s => %s' % (', '.join(lnames), exitv), '  | %s :: rest, %s =>' % (lid(var), ', '.join(lnames))] + body
            call = '%s%s %s %s' % (name, capa, self.arg(lst), ' '.join(lnames))
        else:
            if c.mutual:
                bad('range loop in a recursive function', line)
            rec = '%s%s n (%s + 1) %s' % (name, capa, lid(var), ' '.join(lnames))
            body = self.seq(blk[0], blk[1], cc, 4, ('loop', rec))
            text = ['/-- a `for` loop of `%s` over a range: iterations left, the loop variable, the assigned variables -/' % self.rust_name(c.fn),
                    'def %s%s : Nat → Nat → %s → %s' % (name, capp, ' → '.join(ltys), rty),
                    '  | 0, _, %s => %s' % (', '.join(lnames), exitv), '  | n + 1, %s, %s =>' % (lid(var), ', '.join(lnames))] + body
            call = '%s%s (%s - %s) %s %s' % (name, capa, self.arg(hi), self.arg(lo), self.arg(lo), ' '.join(lnames))
        self.extra.setdefault(key, []).append('\n'.join(text) + '\n')
        return pre.wrap(ind, lambda i: self.bind(call, fallible, tup, rty, i, k))

    def rust_name(self, f):
        return (f.owner + '::' if f.owner else '') + f.name

    # ---------------------------------------------------------------- functions
    def function(self, key, mutual=False, rank=None):
        f, s = self.funcs[key], self.sig[key]
        c = Ctx(self, f)
        c.mutual = mutual
        owner = f.owner
        params = []
        for pn, pt, _ in f.params:
            ty = rust_ty(pt)
            if ty == 'Options':
                c.vars[pn] = ty
                continue
            c.vars[pn] = ty
            params.append('(%s : %s)' % (lid(pn), self.lty(ty)))
            if ty == 'Info' and owner != 'Info':
                c.info_param = pn
        name = f.name if owner in ('Compiler', 'Info', None) else owner + '.' + f.name
        if owner in ('Compiler', 'Info') and f.selfkind is None:
            name = owner + '.' + f.name
        c.defname = f.name
        if self.text:
            name = ('DelegateBuilderText.' + f.name) if owner == 'DelegateBuilder' else f.name + '_text'
            c.defname = f.name + '_text'
        if f.selfkind is not None:
            c.selfname, c.selfty = 'self', owner
            sp = '(self : %s)' % self.lty(owner)
            params = params + [sp] if owner == 'Compiler' else [sp] + params
            if owner == 'Info':
                c.info_param = 'self'
        threads = ['self'] if f.selfkind == 'mut' else []
        threads += s['threads']
        if s['ret'] in (None, 'selfref'):
            fin = ('vars', threads or bad('%s: nothing to return' % f.name, f.line), s['fallible'])
            rty = ' × '.join(self.lty(t) for t in self.var_types(threads, c))
        else:
            fin = ('ret', s['fallible'], threads)
            rty = ' × '.join([self.lty(s['ret'])] + [self.lty(t) for t in self.var_types(threads, c)])
        if s['fallible']:
            rty = 'Except CErr ' + ('(%s)' % rty if ' ' in rty else rty)
        body = self.seq(f.body[0], f.body[1], c, 2, fin)
        head = ['/-- `%s` -/' % self.rust_name(f), 'def %s%s : %s :=' % (name, ''.join(' ' + p for p in params), rty)]
        tailx = []
        if mutual:
            tailx = ['termination_by (sizeOf %s, %d)' % (lid(c.info_param) if c.info_param != 'self' else 'self', rank),
                     'decreasing_by all_goals (simp_wf; ginfo_facts; omega)']
        return '\n'.join(head + body + tailx) + '\n'

    def structure(self, name):
        fs = [(f, tag) for f, _, tag in STRUCTS[name] if tag is not None]
        note = '' if len(fs) == len(STRUCTS[name]) else ' (`options : RegexOptions` is not modelled)'
        return '/-- `struct %s`%s -/\nstructure %s where\n%sderiving Repr, Inhabited\n' % (
            name, note, name, ''.join('  %s : %s\n' % (f, self.lty(t)) for f, t in fs))

    def text_reading(self):
        """the second reading of `DelegateBuilder` and `compile_delegate(s)`: `re` is the `String` it is (built by the
        translated `Expr::to_str`), the program is reduced to the instructions these functions emit, with their texts"""
        tt = Translator(self.toks)
        tt.text = True
        saved = (dict(LEAN_TY), STRUCTS['DelegateBuilder'])
        try:
            LEAN_TY.update({'Compiler': 'List TInsn', 'DelegateBuilder': 'DelegateBuilderText', 'Insn': 'TInsn'})
            STRUCTS['DelegateBuilder'] = [(f, t, 'String' if f == 're' else tag) for f, t, tag in STRUCTS['DelegateBuilder']]
            tt.load()
            keys = [k for k in tt.funcs if k[0] == 'DelegateBuilder'] + [('Compiler', 'compile_delegates'), ('Compiler', 'compile_delegate')]
            for k in keys:
                if k not in tt.funcs:
                    bad('compile.rs: `%s::%s` not found' % k)
            out = ['/-! ## the text handed to regex-automata: `DelegateBuilder::re` read as the `String` it is -/\n',
                   tt.structure('DelegateBuilder').replace('structure DelegateBuilder where', 'structure DelegateBuilderText where')
                     .replace('`struct DelegateBuilder`', '`struct DelegateBuilder` (the text reading)')]
            for k in keys:
                t = tt.function(k)
                out += tt.extra.get(k, []) + [t]
            return '\n'.join(out)
        finally:
            LEAN_TY.clear()
            LEAN_TY.update(saved[0])
            STRUCTS['DelegateBuilder'] = saved[1]

    def run(self):
        self.check_tables()
        self.load()
        out = []
        # `impl Info`: every method with its loops is a recursive group of its own
        out.append("/-! ## `impl Info` (src/analyze.rs) -/\n")
        for key in [k for k in self.funcs if k[0] == 'Info']:
            text = self.function(key, mutual=True, rank=1)
            out.append('mutual\n' + text + ''.join(self.extra.get(key, [])) + 'end\n')
        comp = [k for k in self.funcs if k[0] == 'Compiler' and self.funcs[k].selfkind is not None]
        # translate every Compiler method once to learn the call graph (the text is regenerated below)
        for k in comp:
            self.extra.pop(k, None)
            self.function(k)
            self.extra.pop(k, None)
        reach = {k: set(x for x, _ in self.calls.get(k, ())) for k in comp}
        changed = True
        while changed:
            changed = False
            for k in comp:
                for y in list(reach[k]):
                    new = reach.get(y, set()) - reach[k]
                    if new:
                        reach[k] |= new
                        changed = True
        visit = ('Compiler', 'visit')
        if visit not in self.funcs:
            bad('compile.rs: `Compiler::visit` not found')
        group = [k for k in comp if k == visit or (visit in reach[k] and k in reach[visit])]
        rank = {}

        def rk(k, seen=()):
            if k in seen:
                bad('recursion of `%s` on the same Info' % k[1], self.funcs[k].line)
            if k not in rank:
                rank[k] = max([1 + rk(y, seen + (k,)) for y, same in self.calls.get(k, ()) if same and y in group] + [0])
            return rank[k]
        for k in group:
            rk(k)
        for owner in ('VMBuilder', 'DelegateBuilder'):
            out.append('/-! ## `%s` -/\n' % owner)
            out.append(self.structure(owner))
            for key in [k for k in self.funcs if k[0] == owner]:
                text = self.function(key)
                out += self.extra.get(key, []) + [text]
        out.append('/-! ## `Compiler` -/\n')
        out.append(self.structure('Compiler'))
        rest = [k for k in self.funcs if k[0] == 'Compiler' and k not in group]
        done, texts = [], {}
        for k in rest:
            self.extra.pop(k, None)
            self.calls.pop(k, None)
            texts[k] = ''.join(x + '\n' for x in []) + ''
            t = self.function(k)
            texts[k] = '\n'.join(self.extra.get(k, []) + [t])
        deps = {k: set(y for y in rest if y != k and re.search(r'\b%s\b' % re.escape(('Compiler.' if self.funcs[y].selfkind is None else '') + y[1]), texts[k].split(':=', 1)[1])) for k in rest}
        while len(done) < len(rest):
            for k in rest:
                if k not in done and deps[k] <= set(done):
                    done.append(k)
                    out.append(texts[k])
                    break
            else:
                bad('compile.rs: recursion among the functions outside the `visit` group')
        block = []
        for k in group:
            self.extra.pop(k, None)
            block.append(self.function(k, mutual=True, rank=rank[k]))
            block += self.extra.get(k, [])
        out.append('mutual\n' + '\n'.join(block) + 'end\n')
        free = [k for k in self.funcs if k[0] is None]
        texts = {k: self.function(k) for k in free}
        done = []
        while len(done) < len(free):
            for k in free:
                if k not in done and all(y in done or y == k or not re.search(r'\b%s\b' % y[1], texts[k].split(':=', 1)[1]) for y in free):
                    done.append(k)
                    out.append(texts[k])
                    break
            else:
                bad('compile.rs: recursion among the free functions')
        out.append(self.text_reading())
        header = ('/- generated by tools/rs2lean_compile.py from src/compile.rs and src/analyze.rs — do not edit -/\n'
                  'import FancyModel.GenCompilePrelude\nset_option linter.unusedVariables false\nnamespace Fancy.GenCompile\n'
                  'open Fancy.GenAnalyze\n\n')
        return header + '\n'.join(out) + '\nend Fancy.GenCompile\n'


def translate(paths):
    toks = {k: rv.tokenize(open(p).read(), os.path.basename(p)) for k, p in paths.items()}
    return Translator(toks).run()


def main(argv):
    args = argv[1:]
    stub = '--stub-on-failure' in args
    args = [a for a in args if a != '--stub-on-failure']
    opts = {}
    for o in ('-o', '--analyze', '--lib', '--vm'):
        if o in args:
            i = args.index(o)
            opts[o] = args[i + 1]
            del args[i:i + 2]
    src = args[0] if args else os.environ.get('RS2LEAN_COMPILE_SRC', DEFAULT_SRC)
    out = opts.get('-o', os.environ.get('RS2LEAN_COMPILE_OUT', DEFAULT_OUT))
    d = os.path.dirname(os.path.abspath(src))
    pick = lambda o, n: opts.get(o) or (os.path.join(d, n) if os.path.exists(os.path.join(d, n)) else os.path.join('/repo/src', n))
    paths = {'compile': src, 'analyze': pick('--analyze', 'analyze.rs'), 'lib': pick('--lib', 'lib.rs'), 'vm': pick('--vm', 'vm.rs')}
    try:
        text = translate(paths)
        status = 0
    except Unsupported as u:
        msg = 'rs2lean_compile.py: NOT TRANSLATED - %s:%s: %s' % (os.path.basename(src), u.line if u.line is not None else '?', u.msg)
        print(msg, file=sys.stderr if not stub else sys.stdout)
        if not stub:
            return 2
        text = ('/- %s -/\nnamespace Fancy.GenCompile\ntheorem translator_could_not_read_compile_rs : False := by\n'
                '  exact translation_failed   -- deliberately unresolved: see the comment above\nend Fancy.GenCompile\n'
                % msg.replace('-/', '- /'))
        status = 0
    old = open(out).read() if os.path.exists(out) else None
    if old != text:
        open(out, 'w').write(text)
        print('rs2lean_compile.py: wrote %s' % out)
    else:
        print('rs2lean_compile.py: %s is up to date' % out)
    return status


if __name__ == '__main__':
    sys.exit(main(sys.argv))
