/-! Spike: backtrack_cut refines "drop the top k whole-copy snapshots, keep current slots" -/
namespace St

structure Branch where
  pc : Nat
  ix : Nat
  nsave : Nat
deriving Repr, DecidableEq

/-- head = top for `stack` and `oldsave`. -/
structure State where
  saves : List Nat
  stack : List Branch
  oldsave : List (Nat × Nat)
  nsave : Nat
deriving Repr

def undo (saves : List Nat) (log : List (Nat × Nat)) : List Nat :=
  log.foldl (fun sv e => sv.set e.1 e.2) saves

theorem undo_append (sv : List Nat) (a b : List (Nat × Nat)) : undo sv (a ++ b) = undo (undo sv a) b := by
  simp [undo, List.foldl_append]

theorem undo_set_of_mem (log : List (Nat × Nat)) (saves : List Nat) (slot val : Nat)
    (h : log.any (fun e => e.1 == slot) = true) :
    undo (saves.set slot val) log = undo saves log := by
  induction log generalizing saves with
  | nil => simp at h
  | cons e es ih =>
    simp only [undo, List.foldl_cons]
    by_cases he : e.1 = slot
    · subst he; simp [List.set_set]
    · have : es.any (fun e => e.1 == slot) = true := by simpa [he] using h
      rw [List.set_comm _ _ (by omega : slot ≠ e.1)]
      exact ih _ this

/-- keep, for each slot, only its last (= oldest) entry; order preserved -/
def keepOldest : List (Nat × Nat) → List (Nat × Nat)
  | [] => []
  | e :: es => if es.any (fun x => x.1 == e.1) then keepOldest es else e :: keepOldest es

theorem undo_keepOldest (log : List (Nat × Nat)) (sv : List Nat) : undo sv (keepOldest log) = undo sv log := by
  induction log generalizing sv with
  | nil => rfl
  | cons e es ih =>
    unfold keepOldest
    split
    · rename_i h
      rw [ih]
      show undo sv es = undo (sv.set e.1 e.2) es
      exact (undo_set_of_mem es sv e.1 e.2 h).symm
    · show undo (sv.set e.1 e.2) (keepOldest es) = undo (sv.set e.1 e.2) es
      exact ih _

def sumNsave (bs : List Branch) : Nat := (bs.map (·.nsave)).sum

/-- functional reading of `backtrack_cut(count)` with k = stack.len - count branches discarded -/
def State.cut (s : State) (k : Nat) : State :=
  if k = 0 then s else
  let n := s.nsave + sumNsave (s.stack.take k)
  let merged := keepOldest (s.oldsave.take n)
  { saves := s.saves, stack := s.stack.drop k, oldsave := merged ++ s.oldsave.drop n, nsave := merged.length }

def absStack : List Nat → Nat → List (Nat × Nat) → List Branch → List (Nat × Nat × List Nat)
  | _, _, _, [] => []
  | cur, n, log, b :: bs =>
    let snap := undo cur (log.take n)
    (b.pc, b.ix, snap) :: absStack snap b.nsave (log.drop n) bs

structure AState where
  saves : List Nat
  stack : List (Nat × Nat × List Nat)
deriving Repr

def abs (s : State) : AState := ⟨s.saves, absStack s.saves s.nsave s.oldsave s.stack⟩
def AState.cut (a : AState) (k : Nat) : AState := { a with stack := a.stack.drop k }

/-- dropping k snapshots = restarting absStack from the state reached by undoing k+... segments -/
theorem absStack_drop (cur : List Nat) (n : Nat) (log : List (Nat × Nat)) (bs : List Branch) (k : Nat)
    (hk : k ≤ bs.length) (hlen : n + sumNsave (bs.take k) ≤ log.length) :
    (absStack cur n log bs).drop k =
      match bs.drop k with
      | [] => []
      | b :: rest =>
        let m := n + sumNsave (bs.take k)
        let snap := undo cur (log.take m)
        (b.pc, b.ix, snap) :: absStack snap b.nsave (log.drop m) rest := by
  induction k generalizing cur n log bs with
  | zero =>
    cases bs with
    | nil => simp [absStack]
    | cons b rest => simp [absStack, sumNsave]
  | succ k ih =>
    cases bs with
    | nil => simp at hk
    | cons b rest =>
      simp only [absStack, List.drop_succ_cons, List.take_succ_cons]
      have hk' : k ≤ rest.length := by simpa using hk
      have hs : sumNsave (b :: rest.take k) = b.nsave + sumNsave (rest.take k) := by simp [sumNsave]
      simp only [List.take_succ_cons] at hlen
      rw [hs] at hlen
      have hlen' : b.nsave + sumNsave (rest.take k) ≤ (log.drop n).length := by
        simp only [List.length_drop]; omega
      rw [ih (undo cur (log.take n)) b.nsave (log.drop n) rest hk' hlen']
      cases hrest : rest.drop k with
      | nil => simp
      | cons b' rest' =>
        simp only [hs]
        have e1 : log.take (n + (b.nsave + sumNsave (rest.take k))) =
            log.take n ++ (log.drop n).take (b.nsave + sumNsave (rest.take k)) := by
          rw [List.take_add]
        have e2 : (log.drop n).drop (b.nsave + sumNsave (rest.take k)) =
            log.drop (n + (b.nsave + sumNsave (rest.take k))) := by
          rw [List.drop_drop]
        rw [e1, undo_append, e2]

theorem abs_cut (s : State) (k : Nat) (hk : k ≤ s.stack.length)
    (hlen : s.nsave + sumNsave (s.stack.take k) ≤ s.oldsave.length) :
    abs (s.cut k) = (abs s).cut k := by
  unfold State.cut
  split
  · rename_i h; subst h; simp [AState.cut]
  · simp only [abs, AState.cut]
    congr 1
    rw [absStack_drop s.saves s.nsave s.oldsave s.stack k hk hlen]
    cases hd : s.stack.drop k with
    | nil => simp [absStack]
    | cons b rest =>
      simp only [absStack]
      have t1 : (keepOldest (s.oldsave.take (s.nsave + sumNsave (s.stack.take k))) ++
            s.oldsave.drop (s.nsave + sumNsave (s.stack.take k))).take
              (keepOldest (s.oldsave.take (s.nsave + sumNsave (s.stack.take k)))).length =
          keepOldest (s.oldsave.take (s.nsave + sumNsave (s.stack.take k))) := by simp
      have t2 : (keepOldest (s.oldsave.take (s.nsave + sumNsave (s.stack.take k))) ++
            s.oldsave.drop (s.nsave + sumNsave (s.stack.take k))).drop
              (keepOldest (s.oldsave.take (s.nsave + sumNsave (s.stack.take k)))).length =
          s.oldsave.drop (s.nsave + sumNsave (s.stack.take k)) := by simp
      rw [t1, t2, undo_keepOldest]

#print axioms abs_cut
end St
