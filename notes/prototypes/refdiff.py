#!/usr/bin/env python3
"""Throw-away: reference semantics of DESIGN §3.2 vs the (patched) crate, to see whether the
hypothesis list WF/Closed/NoEmptyLoop/NoCondLeak is complete. Not framework code."""
import random, subprocess, sys, itertools

# ---------------- AST ----------------
# ('lit',c) ('any',nl) ('cls',chars,neg,src) ('as',kind) ('cat',[..]) ('alt',[..]) ('grp',e) ('look',e,kind)
# ('rep',e,lo,hi,greedy,poss) ('bref',n) ('atomic',e) ('K',) ('G',) ('exists',n) ('cond',c,y,n) ('empty',)
WORD = set('abcé')

def number(e, ctr):
    """assign group numbers in opening-paren order; returns new tree"""
    k = e[0]
    if k == 'grp':
        ctr[0] += 1; n = ctr[0]
        return ('grp', n, number(e[1], ctr))
    if k in ('cat', 'alt'): return (k, [number(x, ctr) for x in e[1]])
    if k == 'look': return ('look', number(e[1], ctr), e[2])
    if k == 'rep': return ('rep', number(e[1], ctr)) + e[2:]
    if k == 'atomic': return ('atomic', number(e[1], ctr))
    if k == 'cond': return ('cond', number(e[1], ctr), number(e[2], ctr), number(e[3], ctr))
    return e

def show(e, prec=0):
    k = e[0]
    if k == 'empty': return ''
    if k == 'lit': return e[1] if e[1] not in '\n' else '\\n'
    if k == 'any': return '(?s:.)' if e[1] else '.'
    if k == 'cls': return e[3]
    if k == 'as': return e[1]
    if k == 'cat':
        s = ''.join(show(x, 2) for x in e[1])
        return '(?:' + s + ')' if prec > 2 else s
    if k == 'alt':
        s = '|'.join(show(x, 1) for x in e[1])
        return '(?:' + s + ')' if prec > 0 else s
    if k == 'grp': return '(' + show(e[2], 0) + ')'
    if k == 'look': return {'la': '(?=', 'lan': '(?!', 'lb': '(?<=', 'lbn': '(?<!'}[e[2]] + show(e[1], 0) + ')'
    if k == 'rep':
        _, x, lo, hi, greedy, poss = e
        q = {(0, 1): '?', (0, None): '*', (1, None): '+'}.get((lo, hi))
        if q is None:
            q = '{%d}' % lo if lo == hi else '{%d,%s}' % (lo, '' if hi is None else hi)
        inner = show(x, 3)
        if x[0] in ('rep', 'look', 'as', 'empty', 'K', 'G', 'exists', 'cond', 'bref') or (x[0] == 'lit' and False):
            inner = '(?:' + show(x, 0) + ')'
        if x[0] == 'bref': inner = '(?:' + show(x, 0) + ')'
        return inner + q + ('' if greedy else '?') + ('+' if poss else '')
    if k == 'bref': return '\\%d' % e[1]
    if k == 'atomic': return '(?>' + show(e[1], 0) + ')'
    if k == 'K': return '\\K'
    if k == 'G': return '\\G'
    if k == 'exists': return '(?(%d))' % e[1]
    if k == 'cond':
        c = e[1]
        cs = '(%d)' % c[1] if c[0] == 'exists' else '(' + show(c, 0) + ')'
        return '(?' + cs + show(e[2], 1) + '|' + show(e[3], 1) + ')'
    raise Exception(k)

# ---------------- reference semantics ----------------
class Ctx:
    def __init__(self, text, pos): self.t = text; self.pos = pos; self.n = len(text)

def is_word(c): return c in WORD or c.isalnum() or c == '_'

def assertion(kind, ctx, ix):
    t = ctx.t
    if kind in ('^', '\\A'): return ix == 0
    if kind in ('$', '\\z'): return ix == ctx.n
    if kind == '(?m:^)': return ix == 0 or t[ix-1] == '\n'
    if kind == '(?m:$)': return ix == ctx.n or t[ix] == '\n'
    a = ix > 0 and is_word(t[ix-1]); b = ix < ctx.n and is_word(t[ix])
    if kind == '\\b': return a != b
    if kind == '\\B': return a == b
    raise Exception(kind)

def min_size(e):
    k = e[0]
    if k in ('lit', 'any', 'cls'): return 1
    if k == 'cat': return sum(min_size(x) for x in e[1])
    if k == 'alt': return min(min_size(x) for x in e[1])
    if k == 'grp': return min_size(e[2])
    if k == 'atomic': return min_size(e[1])
    if k == 'rep': return min_size(e[1]) * e[2]
    if k == 'cond': return min(min_size(e[1]) + min_size(e[2]), min_size(e[3]))
    return 0

def const_size(e):
    k = e[0]
    if k in ('lit', 'any', 'cls', 'as', 'empty', 'look', 'K', 'G', 'exists'): return True
    if k == 'cat': return all(const_size(x) for x in e[1])
    if k == 'alt': return all(const_size(x) for x in e[1]) and len(set(min_size(x) for x in e[1])) == 1
    if k == 'grp': return const_size(e[2])
    if k == 'atomic': return const_size(e[1])
    if k == 'rep': return const_size(e[1]) and e[2] == e[3]
    if k == 'cond': return const_size(e[1]) and const_size(e[2]) and const_size(e[3]) and min_size(e[1]) + min_size(e[2]) == min_size(e[3])
    return False

def sem(e, ctx, ix, caps):
    """generator of (ix, caps) in priority order; caps is a tuple of slots"""
    k = e[0]
    t = ctx.t
    if k == 'empty': yield ix, caps
    elif k == 'lit':
        if ix < ctx.n and t[ix] == e[1]: yield ix+1, caps
    elif k == 'any':
        if ix < ctx.n and (e[1] or t[ix] != '\n'): yield ix+1, caps
    elif k == 'cls':
        if ix < ctx.n and ((t[ix] in e[1]) != e[2]): yield ix+1, caps
    elif k == 'as':
        if assertion(e[1], ctx, ix): yield ix, caps
    elif k == 'cat':
        def go(i, ix, caps):
            if i == len(e[1]): yield ix, caps; return
            for ix2, c2 in sem(e[1][i], ctx, ix, caps):
                yield from go(i+1, ix2, c2)
        yield from go(0, ix, caps)
    elif k == 'alt':
        for x in e[1]: yield from sem(x, ctx, ix, caps)
    elif k == 'grp':
        g = e[1]
        c1 = caps[:2*g] + (ix,) + caps[2*g+1:]
        for ix2, c2 in sem(e[2], ctx, ix, c1):
            yield ix2, c2[:2*g+1] + (ix2,) + c2[2*g+2:]
    elif k == 'look':
        kind = e[2]
        if kind == 'la':
            for ix2, c2 in sem(e[1], ctx, ix, caps):
                yield ix, c2; break
        elif kind == 'lan':
            for _ in sem(e[1], ctx, ix, caps): return
            yield ix, caps
        else:
            alts = e[1][1] if (e[1][0] == 'alt' and not const_size(e[1])) else [e[1]]
            def behind():
                for a in alts:
                    for j in range(ix, -1, -1):
                        for ix2, c2 in sem(a, ctx, j, caps):
                            if ix2 == ix: yield c2
            if kind == 'lb':
                for c2 in behind():
                    yield ix, c2; break
            else:
                # negative: each alternative must fail (same as none matching)
                for _ in behind(): return
                yield ix, caps
    elif k == 'rep':
        _, x, lo, hi, greedy, poss = e
        def loop(count, ix, caps):
            if hi is not None and count == hi:
                yield ix, caps; return
            def iters():
                for ix2, c2 in sem(x, ctx, ix, caps):
                    if hi is None and count >= lo and ix2 == ix:
                        yield ix2, c2      # empty iteration beyond the minimum ends the loop
                    else:
                        yield from loop(count+1, ix2, c2)
            if count < lo: yield from iters()
            elif greedy:
                yield from iters(); yield ix, caps
            else:
                yield ix, caps; yield from iters()
        if poss:
            for r in loop(0, ix, caps):
                yield r; break
        else:
            yield from loop(0, ix, caps)
    elif k == 'bref':
        lo, hi = caps[2*e[1]], caps[2*e[1]+1]
        if lo is None or hi is None or lo > hi: return
        s = t[lo:hi]
        if t[ix:ix+len(s)] == s and ix + len(s) <= ctx.n: yield ix+len(s), caps
    elif k == 'atomic':
        for r in sem(e[1], ctx, ix, caps):
            yield r; break
    elif k == 'K': yield ix, (ix,) + caps[1:]
    elif k == 'G':
        if ix == ctx.pos: yield ix, caps
    elif k == 'exists':
        if caps[2*e[1]] is not None: yield ix, caps
    elif k == 'cond':
        first = None
        for r in sem(e[1], ctx, ix, caps):
            first = r; break
        if first is not None: yield from sem(e[2], ctx, first[0], first[1])
        else: yield from sem(e[3], ctx, ix, caps)
    else: raise Exception(k)

def ref_search(e, ngroups, text, pos):
    ctx = Ctx(text, pos)
    for start in range(pos, len(text)+1):
        caps0 = (start,) + (None,) * (2*ngroups + 1)
        for ix2, c2 in sem(e, ctx, start, caps0):
            c2 = c2[:1] + (ix2,) + c2[2:]
            s0 = min(max(c2[0], pos), ix2)
            return (s0,) + c2[1:]
    return None

# ---------------- predicates ----------------
def subexprs(e):
    yield e
    k = e[0]
    if k in ('cat', 'alt'):
        for x in e[1]: yield from subexprs(x)
    elif k == 'grp': yield from subexprs(e[2])
    elif k in ('look', 'rep', 'atomic'): yield from subexprs(e[1])
    elif k == 'cond':
        for x in e[1:]: yield from subexprs(x)

def no_empty_loop(e): return all(not (x[0] == 'rep' and x[3] is None and min_size(x[1]) == 0) for x in subexprs(e))
def has(e, kinds): return any(x[0] in kinds for x in subexprs(e))
def no_cond_leak(e):
    for x in subexprs(e):
        if x[0] == 'atomic' and has(x[1], ('cond',)): return False
        if x[0] == 'rep' and x[5] and has(x[1], ('cond',)): return False
        if x[0] == 'cond' and has(x[1], ('cond',)): return False
    return True
def closed(e):
    """every bref/exists refers to a group closed earlier (pre-order walk)"""
    ok = [True]
    def walk(e, closed_set):
        k = e[0]
        if k in ('bref', 'exists'):
            if e[1] not in closed_set: ok[0] = False
        elif k == 'grp':
            walk(e[2], closed_set); closed_set.add(e[1])
        elif k in ('cat',):
            for x in e[1]: walk(x, closed_set)
        elif k == 'alt':
            # a group closed in an earlier alternative counts as closed textually (it is just unset)
            for x in e[1]: walk(x, closed_set)
        elif k in ('look', 'rep', 'atomic'): walk(e[1], closed_set)
        elif k == 'cond':
            for x in e[1:]: walk(x, closed_set)
    walk(e, set()); return ok[0]

# ---------------- generator ----------------
LEAVES = [('lit', 'a'), ('lit', 'b'), ('lit', 'é'), ('any', False), ('any', True),
          ('cls', set('ab'), False, '[ab]'), ('cls', set('a'), True, '[^a]'), ('cls', WORD, False, '\\w'),
          ('as', '^'), ('as', '$'), ('as', '\\b'), ('as', '\\B'), ('as', '(?m:^)'), ('as', '(?m:$)'),
          ('K',), ('G',), ('empty',)]
QUANTS = [(0, 1), (0, None), (1, None), (2, 2), (1, 2), (2, None), (0, 2)]

def gen(r, depth, st):
    c = r.random()
    if depth == 0 or c < 0.22:
        x = r.random()
        if x < 0.08 and st['groups'] > 0: return ('bref', r.randint(1, st['groups']))
        if x < 0.11 and st['groups'] > 0: return ('exists', r.randint(1, st['groups']))
        return r.choice(LEAVES)
    if c < 0.40: return ('cat', [gen(r, depth-1, st) for _ in range(r.choice([2, 2, 3]))])
    if c < 0.52: return ('alt', [gen(r, depth-1, st) for _ in range(r.choice([2, 2, 3]))])
    if c < 0.62:
        st['groups'] += 1
        return ('grp', gen(r, depth-1, st))
    if c < 0.80:
        x = gen(r, depth-1, st)
        if x[0] in ('as', 'empty', 'look'): return x
        lo, hi = r.choice(QUANTS)
        return ('rep', x, lo, hi, r.random() < 0.7, r.random() < 0.12)
    if c < 0.90: return ('look', gen(r, depth-1, st), r.choice(['la', 'lan', 'lb', 'lbn']))
    if c < 0.95: return ('atomic', gen(r, depth-1, st))
    cnd = ('exists', r.randint(1, st['groups'])) if st['groups'] > 0 and r.random() < 0.5 else gen(r, depth-1, st)
    if cnd[0] == 'bref': cnd = ('exists', cnd[1])   # a condition that is exactly one back-reference is a group test
    return ('cond', cnd, gen(r, depth-1, st), gen(r, depth-1, st))

def simplify(e):
    """mirror parser normalisations that matter for printing: drop empties in cat"""
    return e

TEXTS = ['', 'a', 'b', 'ab', 'ba', 'aa', 'aab', 'aba', 'abab', 'é', 'aé', 'éa', 'a\nb', '\na', 'b a', 'aaa', 'bab', 'abba']

def hexs(s): return s.encode().hex()
def boff(t):
    o = [0]
    for c in t: o.append(o[-1] + len(c.encode()))
    return o

def main():
    seed = int(sys.argv[1]) if len(sys.argv) > 1 else 1
    npat = int(sys.argv[2]) if len(sys.argv) > 2 else 3000
    r = random.Random(seed)
    cases = []; seen = set()
    while len(seen) < npat:
        st = {'groups': 0}
        e = gen(r, r.choice([2, 3, 3, 4]), st)
        ctr = [0]; e = number(e, ctr)
        p = show(e)
        if p in seen or len(p) > 60: continue
        seen.add(p)
        for t in TEXTS:
            for pos in ([0] if len(t) < 2 else [0, 1]):
                cases.append((e, ctr[0], p, t, pos))
    inp = '\n'.join('%s\t%s\t%d' % (hexs(p), hexs(t), boff(t)[pos]) for (_, _, p, t, pos) in cases) + '\n'
    out = subprocess.run(['/root/scratch/runner/target/release/runner'], input=inp, capture_output=True, text=True).stdout.split('\n')
    stats = {}
    shown = {}
    for (e, ng, p, t, pos), got in zip(cases, out):
        if got.startswith('CE') or got.startswith('PANIC-COMPILE'):
            key = got.split()[0]; stats[key] = stats.get(key, 0) + 1
            if key.startswith('PANIC') and key not in shown: shown[key] = 1; print('!!', key, repr(p))
            continue
        flags = (no_empty_loop(e), closed(e), no_cond_leak(e))
        dom = all(flags)
        try:
            ref = ref_search(e, ng, t, pos)
        except RecursionError:
            stats['ref-recursion'] = stats.get('ref-recursion', 0) + 1; continue
        o = boff(t)
        exp = 'none' if ref is None else ' '.join('-' if ref[2*g] is None or ref[2*g+1] is None else '%d,%d' % (o[ref[2*g]], o[ref[2*g+1]]) for g in range(ng+1))
        if got == exp:
            k = 'agree-dom' if dom else 'agree-offdom'
        else:
            k = ('DIFF-dom' if dom else 'diff-offdom') + ('' if not got.startswith(('RE', 'PANIC')) else '-' + got)
            sk = (k, flags)
            if shown.get(sk, 0) < (12 if dom else 3):
                shown[sk] = shown.get(sk, 0) + 1
                print('%s flags(noEmptyLoop,closed,noCondLeak)=%s  %r on %r pos %d: impl=%s ref=%s' % (k, flags, p, t, pos, got, exp))
        stats[k] = stats.get(k, 0) + 1
    print(stats)

if __name__ == '__main__':
    sys.setrecursionlimit(10000)
    main()
