use fancy_regex::{Error, Regex, RuntimeError};
use std::io::{BufRead, Write};
use std::panic::catch_unwind;
fn unhex(s: &str) -> String { let b: Vec<u8> = (0..s.len()/2).map(|i| u8::from_str_radix(&s[2*i..2*i+2], 16).unwrap()).collect(); String::from_utf8(b).unwrap() }
fn main() {
    std::panic::set_hook(Box::new(|_| {}));
    let stdin = std::io::stdin();
    let out = std::io::stdout();
    let mut out = std::io::BufWriter::new(out.lock());
    let mut cur_pat = String::new();
    let mut cur_re: Option<Result<Regex, String>> = None;
    for line in stdin.lock().lines() {
        let line = line.unwrap();
        let f: Vec<&str> = line.split('\t').collect();
        let pat = unhex(f[0]); let text = unhex(f[1]); let pos: usize = f[2].parse().unwrap();
        if cur_re.is_none() || pat != cur_pat {
            let p2 = pat.clone();
            cur_re = Some(match catch_unwind(move || Regex::new(&p2)) { Ok(Ok(r)) => Ok(r), Ok(Err(e)) => Err(format!("CE {}", match e { Error::CompileError(c) => format!("{:?}", c).chars().take(20).collect::<String>(), Error::ParseError(_, p) => format!("P:{:?}", p).chars().take(20).collect(), _ => "?".into() })), Err(_) => Err("PANIC-COMPILE".into()) });
            cur_pat = pat.clone();
        }
        let res = match cur_re.as_ref().unwrap() {
            Err(e) => e.clone(),
            Ok(re) => {
                let re = re.clone(); let t = text.clone();
                match catch_unwind(move || match re.captures_from_pos(&t, pos) {
                    Err(Error::RuntimeError(RuntimeError::StackOverflow)) => "RE stack".to_string(),
                    Err(Error::RuntimeError(RuntimeError::BacktrackLimitExceeded)) => "RE limit".to_string(),
                    Err(_) => "RE other".to_string(),
                    Ok(None) => "none".to_string(),
                    Ok(Some(c)) => (0..c.len()).map(|i| match c.get(i) { Some(m) => format!("{},{}", m.start(), m.end()), None => "-".into() }).collect::<Vec<_>>().join(" "),
                }) { Ok(s) => s, Err(_) => "PANIC".into() }
            }
        };
        writeln!(out, "{}", res).unwrap();
    }
}
